//! Drives the REAL gecs proc-macro sources (parser, id assignment, cfg lookup, world and query
//! generators) as a library, thousands of inputs per second and without rustc.
//! Input (stdin): one request per line, tab-separated:
//!   W  <world body> <world bools>
//!   D  <world body> <world bools>                     (DataWorld::new only, no code generation)
//!   C  <world body>                                   (the cfg-probing macro chain of ecs_world!)
//!   CQ <macro> <world body> <world bools> <query args> (the cfg-probing chain of a query macro)
//!   Q  <macro> <world body> <world bools> <query args> <query bools>
//! Output: one JSON line per request.
use crate::data::DataWorld;
use crate::generate::{self, FetchMode};
use crate::parse::*;
use proc_macro2::{TokenStream, TokenTree};
use std::io::{BufRead, Write};
use std::str::FromStr;

fn esc(s: &str) -> String {
    s.replace('\\', "\\\\").replace('"', "\\\"").replace('\n', " ")
}

fn count_unsafe(ts: TokenStream) -> usize {
    let mut n = 0;
    for t in ts {
        match t {
            TokenTree::Ident(i) => {
                if i == "unsafe" {
                    n += 1;
                }
            }
            TokenTree::Group(g) => n += count_unsafe(g.stream()),
            _ => {}
        }
    }
    n
}

fn count_tokens(ts: TokenStream) -> usize {
    let mut n = 0;
    for t in ts {
        n += 1;
        if let TokenTree::Group(g) = t {
            n += count_tokens(g.stream());
        }
    }
    n
}

fn world_data(body: &str, bools: &str) -> Result<DataWorld, String> {
    let src = format!("({}), {{ {} }}", bools, body);
    let ts = TokenStream::from_str(&src).map_err(|e| format!("lex: {}", e))?;
    let parsed = syn::parse2::<ParseCfgDecorated<ParseEcsWorld>>(ts).map_err(|e| format!("{}", e))?;
    DataWorld::new(parsed).map_err(|e| format!("{}", e))
}

fn world_json(w: &DataWorld) -> String {
    let archs: Vec<String> = w
        .archetypes
        .iter()
        .map(|a| {
            let comps: Vec<String> = a.components.iter().map(|c| format!("[\"{}\",{}]", c.name, c.id)).collect();
            format!("{{\"name\":\"{}\",\"id\":{},\"comps\":[{}]}}", a.name, a.id, comps.join(","))
        })
        .collect();
    format!("{{\"name\":\"{}\",\"archs\":[{}]}}", w.name, archs.join(","))
}

/// (archetype, closure parameter list) for every expansion block of a generated query
fn blocks(text: &str) -> Vec<(String, String)> {
    let mut out = Vec::new();
    let mut rest = text;
    let key = "type MatchedArchetype = ";
    while let Some(at) = rest.find(key) {
        rest = &rest[at + key.len()..];
        let name: String = rest.chars().take_while(|c| c.is_alphanumeric() || *c == '_').collect();
        let ckey = "let mut closure = |";
        let params = match rest.find(ckey) {
            Some(c) => {
                let r2 = &rest[c + ckey.len()..];
                match r2.find('|') {
                    Some(e) => r2[..e].trim().to_string(),
                    None => "?".to_string(),
                }
            }
            None => "?".to_string(),
        };
        out.push((name, params));
    }
    out
}

fn run_query(mac: &str, wdata: &DataWorld, args: &str, bools: &str) -> Result<TokenStream, String> {
    let src = format!("({}), {{ \"{}\", {} }}", bools, wdata.to_base64(), args);
    let ts = TokenStream::from_str(&src).map_err(|e| format!("lex: {}", e))?;
    let r = match mac {
        "find" => syn::parse2::<ParseCfgDecorated<ParseQueryFind>>(ts).map_err(|e| format!("parse: {}", e)).and_then(|q| generate::generate_query_find(FetchMode::Mut, q).map_err(|e| format!("{}", e))),
        "find_borrow" => syn::parse2::<ParseCfgDecorated<ParseQueryFind>>(ts).map_err(|e| format!("parse: {}", e)).and_then(|q| generate::generate_query_find(FetchMode::Borrow, q).map_err(|e| format!("{}", e))),
        "iter" => syn::parse2::<ParseCfgDecorated<ParseQueryIter>>(ts).map_err(|e| format!("parse: {}", e)).and_then(|q| generate::generate_query_iter(FetchMode::Mut, q).map_err(|e| format!("{}", e))),
        "iter_borrow" => syn::parse2::<ParseCfgDecorated<ParseQueryIter>>(ts).map_err(|e| format!("parse: {}", e)).and_then(|q| generate::generate_query_iter(FetchMode::Borrow, q).map_err(|e| format!("{}", e))),
        "iter_destroy" => syn::parse2::<ParseCfgDecorated<ParseQueryIterDestroy>>(ts).map_err(|e| format!("parse: {}", e)).and_then(|q| generate::generate_query_iter_destroy(FetchMode::Mut, q).map_err(|e| format!("{}", e))),
        _ => Err("lab: unknown macro".to_string()),
    };
    r
}

/// The cfg-probing chain as a list of (predicate, literal appended under cfg(pred), literal appended
/// under cfg(not(pred)), macro invoked next), read back from the generated tokens, plus the entry macro.
fn chain_json(text: &str) -> String {
    let mut items = Vec::new();
    let mut rest = text;
    // every link is:  # [cfg (P)] # [doc (hidden)] macro_rules ! NAME { ... => { NEXT ! (($ ($ bools ,) * LIT) , ...
    while let Some(at) = rest.find("# [cfg (") {
        rest = &rest[at + 8..];
        // predicate up to the matching ")]"
        let mut depth = 1;
        let mut end = 0;
        for (i, ch) in rest.char_indices() {
            if ch == '(' { depth += 1; }
            if ch == ')' { depth -= 1; if depth == 0 { end = i; break; } }
        }
        let pred = rest[..end].trim().to_string();
        rest = &rest[end..];
        let name = rest.find("macro_rules !").map(|m| rest[m + 13..].trim_start().split_whitespace().next().unwrap_or("?").to_string()).unwrap_or_default();
        let lit = if let Some(b) = rest.find("$ bools ,) *") { rest[b + 12..].trim_start().split_whitespace().next().unwrap_or("?").trim_end_matches(')').to_string() } else { "?".to_string() };
        let next = if let Some(a) = rest.find("=> {") { rest[a + 4..].trim_start().split(" !").next().unwrap_or("?").trim().to_string() } else { "?".to_string() };
        items.push(format!("[\"{}\",\"{}\",\"{}\",\"{}\"]", esc(&pred), esc(&name), esc(&lit), esc(&next)));
    }
    let entry = text.rfind("__cfg_ecs_").map(|a| text[a..].split_whitespace().next().unwrap_or("?").to_string()).unwrap_or_else(|| "direct".to_string());
    format!("{{\"links\":[{}],\"entry\":\"{}\",\"direct\":{}}}", items.join(","), esc(&entry), !text.contains("__cfg_ecs_"))
}

pub fn main() {
    let stdin = std::io::stdin();
    let stdout = std::io::stdout();
    let mut out = std::io::BufWriter::new(stdout.lock());
    for (i, line) in stdin.lock().lines().enumerate() {
        let line = line.unwrap();
        let f: Vec<&str> = line.split('\t').collect();
        let res = std::panic::catch_unwind(|| match f[0] {
            "W" => match world_data(f[1], f[2]) {
                Ok(w) => {
                    let ts = generate::generate_world(&w, f[1]);
                    format!("{{\"i\":{},\"res\":\"ok\",\"world\":{},\"unsafe\":{},\"tokens\":{}}}", i, world_json(&w), count_unsafe(ts.clone()), count_tokens(ts))
                }
                Err(e) => format!("{{\"i\":{},\"res\":\"err\",\"msg\":\"{}\"}}", i, esc(&e)),
            },
            "D" => match world_data(f[1], f[2]) {
                Ok(w) => format!("{{\"i\":{},\"res\":\"ok\",\"world\":{}}}", i, world_json(&w)),
                Err(e) => format!("{{\"i\":{},\"res\":\"err\",\"msg\":\"{}\"}}", i, esc(&e)),
            },
            "C" => {
                let ts = TokenStream::from_str(f[1]).unwrap();
                match syn::parse2::<ParseEcsWorld>(ts.clone()) {
                    Ok(p) => { let out = generate::generate_cfg_checks_outer("world", &p, ts); format!("{{\"i\":{},\"res\":\"ok\",\"chain\":{},\"unsafe\":{}}}", i, chain_json(&out.to_string()), count_unsafe(out)) }
                    Err(e) => format!("{{\"i\":{},\"res\":\"err\",\"msg\":\"{}\"}}", i, esc(&format!("{}", e))),
                }
            }
            "CQ" => match world_data(f[2], f[3]) {
                Err(e) => format!("{{\"i\":{},\"res\":\"werr\",\"msg\":\"{}\"}}", i, esc(&e)),
                Ok(w) => {
                    let src = format!("\"{}\", {}", w.to_base64(), f[4]);
                    let ts = TokenStream::from_str(&src).unwrap();
                    let out = match f[1] {
                        "find" | "find_borrow" => syn::parse2::<ParseQueryFind>(ts.clone()).map(|p| generate::generate_cfg_checks_inner(f[1], &p, ts)),
                        "iter" | "iter_borrow" => syn::parse2::<ParseQueryIter>(ts.clone()).map(|p| generate::generate_cfg_checks_inner(f[1], &p, ts)),
                        _ => syn::parse2::<ParseQueryIterDestroy>(ts.clone()).map(|p| generate::generate_cfg_checks_inner(f[1], &p, ts)),
                    };
                    match out {
                        Ok(o) => format!("{{\"i\":{},\"res\":\"ok\",\"chain\":{},\"unsafe\":{}}}", i, chain_json(&o.to_string()), count_unsafe(o)),
                        Err(e) => format!("{{\"i\":{},\"res\":\"err\",\"msg\":\"{}\"}}", i, esc(&format!("{}", e))),
                    }
                }
            },
            "Q" => match world_data(f[2], f[3]) {
                Err(e) => format!("{{\"i\":{},\"res\":\"werr\",\"msg\":\"{}\"}}", i, esc(&e)),
                Ok(w) => match run_query(f[1], &w, f[4], f[5]) {
                    Ok(ts) => {
                        let text = ts.to_string();
                        let bl: Vec<String> = blocks(&text).iter().map(|(a, p)| format!("[\"{}\",\"{}\"]", a, esc(p))).collect();
                        format!("{{\"i\":{},\"res\":\"ok\",\"blocks\":[{}],\"unsafe\":{},\"tokens\":{}}}", i, bl.join(","), count_unsafe(ts.clone()), count_tokens(ts))
                    }
                    Err(e) => format!("{{\"i\":{},\"res\":\"err\",\"msg\":\"{}\"}}", i, esc(&e)),
                },
            },
            _ => format!("{{\"i\":{},\"res\":\"bad\"}}", i),
        });
        match res {
            Ok(s) => writeln!(out, "{}", s).unwrap(),
            Err(_) => writeln!(out, "{{\"i\":{},\"res\":\"panic\"}}", i).unwrap(),
        }
    }
}
