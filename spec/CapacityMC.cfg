SPECIFICATION Spec
CONSTANT Max = 6
INVARIANTS InvHolds WithinClosedForm
CHECK_DEADLOCK FALSE
