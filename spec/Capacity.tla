------------------------------ MODULE Capacity ------------------------------
(***************************************************************************)
(* Counters-only abstraction of one archetype (C12) with the REAL limit    *)
(* Max = 2^24 (fits TLC's integers): the state is <<len, cap>>.  Creation  *)
(* through the growing path (create) and the refusing path                 *)
(* (create_within_capacity), removal, construction.  The operators give,   *)
(* for a bulk of n attempts, how many must succeed and how the sequence    *)
(* must end; TraceCapacity checks bulk events recorded at the real limit   *)
(* against them, CapacityMC explores the single-step machine with a small  *)
(* Max and checks the invariant.                                           *)
(***************************************************************************)
EXTENDS Integers

Min(a, b) == IF a < b THEN a ELSE b

\* with_capacity(n): panics beyond Max, otherwise an empty archetype holding at least n
WithCapacityOk(n, Max) == n <= Max

\* n attempts of create_within_capacity from <<len, cap>>: exactly the free room succeeds,
\* capacity never changes, the first attempt without room is refused (and ends the bulk)
WithinDone(len, cap, n) == Min(n, cap - len)
WithinStop(len, cap, n) == IF n > cap - len THEN "err" ELSE "count"

\* n attempts of create: succeeds while len < Max (growing when needed), panics at Max
CreateDone(len, n, Max) == Min(n, Max - len)
CreateStop(len, n, Max) == IF n > Max - len THEN "panic" ELSE "count"

Inv(len, cap, Max) == 0 <= len /\ len <= cap /\ cap <= Max
=============================================================================
