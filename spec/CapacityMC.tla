----------------------------- MODULE CapacityMC -----------------------------
(* Single-step machine of the counters abstraction with a small Max: the bulk operators of
   Capacity.tla are the closed form of iterating these steps (checked as an invariant). *)
EXTENDS Capacity, TLC
CONSTANT Max
VARIABLES len, cap, made, room0   \* made: creations since the last structural reset; room0: free room then
vars == <<len, cap, made, room0>>
Init == \E c \in 0..Max : len = 0 /\ cap = c /\ made = 0 /\ room0 = c
CreateWithin == /\ len < cap /\ len' = len + 1 /\ made' = made + 1 /\ UNCHANGED <<cap, room0>>
Create == /\ len < Max
          /\ len' = len + 1
          /\ \E c2 \in cap..Max : (c2 >= len' /\ (len < cap => c2 = cap)) /\ cap' = c2
          /\ made' = 0 /\ room0' = cap' - len'
Destroy == len > 0 /\ len' = len - 1 /\ made' = 0 /\ room0' = cap - len' /\ UNCHANGED cap
Next == CreateWithin \/ Create \/ Destroy
Spec == Init /\ [][Next]_vars
InvHolds == Inv(len, cap, Max)
\* closed form: from a state with free room r, exactly r consecutive create_within succeed
WithinClosedForm == made <= room0 /\ (len = cap <=> made = room0)
=============================================================================
