SPECIFICATION Spec
CONSTANTS
  PoolSeq <- Pool3
  MaxParams = 2
  Preds <- TwoPreds
INVARIANTS Export
CHECK_DEADLOCK FALSE
