------------------------------- MODULE Match -------------------------------
(***************************************************************************)
(* Archetype selection and parameter binding of the gecs query macros      *)
(* (ecs_find!, ecs_find_borrow!, ecs_iter!, ecs_iter_borrow!,              *)
(* ecs_iter_destroy!), as a pure function of a world declaration and a     *)
(* closure parameter list.  Transcribes macros/src/generate/query.rs       *)
(* bind_query_params / bind_one_of, including their error precedence.      *)
(*                                                                         *)
(* A declaration is a sequence of archetypes [name, id, cols (sequence of  *)
(* component names)].  A parameter is a tuple <<kind, args...>> with kind  *)
(*   "any" | "wild" | "dany" | "dwild"      entity params binding anywhere *)
(*   "ent" A | "dir" A                      Entity<A> / EntityDirect<A>    *)
(*   "comp" C | "compmut" C                 &C / &mut C                    *)
(*   "oneof" C1..Cn | "oneofmut" C1..Cn     &OneOf<..> / &mut OneOf<..>    *)
(* optionally followed (in MatchMC) by a cfg flag; see Enabled below.      *)
(***************************************************************************)
EXTENDS Integers, Sequences, FiniteSets

Range(s) == {s[i] : i \in DOMAIN s}

IsComp(p)  == p[1] \in {"comp", "compmut"}
IsOneOf(p) == p[1] \in {"oneof", "oneofmut"}
IsMut(p)   == p[1] \in {"compmut", "oneofmut"}
Args(p)    == {p[i] : i \in 2..Len(p)}

\* Components of a OneOf parameter present in archetype `arch`
OneOfHits(arch, p) == Args(p) \cap Range(arch.cols)

\* Does a single parameter bind on this archetype? (OneOf: exactly one hit)
Binds(arch, p) ==
    CASE p[1] \in {"any", "wild", "dany", "dwild"} -> TRUE
      [] p[1] \in {"ent", "dir"}                   -> arch.name = p[2]
      [] IsComp(p)                                  -> p[2] \in Range(arch.cols)
      [] IsOneOf(p)                                 -> Cardinality(OneOfHits(arch, p)) = 1

\* An archetype is matched iff every parameter binds
MatchesArch(arch, params) == \A i \in DOMAIN params : Binds(arch, params[i])

\* Indices (1-based, declaration order) of matched archetypes
Matched(decl, params) == {a \in DOMAIN decl : MatchesArch(decl[a], params)}

\* The generator evaluates every OneOf against every archetype (the inner `continue` only
\* skips to the next parameter), so an ambiguity anywhere is a compile error even when another
\* parameter already excludes that archetype.
Ambiguous(decl, params) ==
    \E a \in DOMAIN decl : \E i \in DOMAIN params :
        IsOneOf(params[i]) /\ Cardinality(OneOfHits(decl[a], params[i])) >= 2

\* Outcome class of expanding a query: ambiguity is reported before the empty match.
Outcome(decl, params) ==
    IF Ambiguous(decl, params) THEN "ambiguous"
    ELSE IF Matched(decl, params) = {} THEN "nomatch"
    ELSE "ok"

\* Column name a component-like parameter is bound to on a matched archetype
BoundCol(arch, p) ==
    IF IsComp(p) THEN p[2] ELSE CHOOSE c \in OneOfHits(arch, p) : TRUE

\* 1-based column index of a component name in an archetype
ColIndex(arch, c) == CHOOSE i \in DOMAIN arch.cols : arch.cols[i] = c

SelectSeq2(s, Test(_)) == SelectSeq(s, Test)

\* Bound columns in the order the harness closure reports them:
\* read-only component-like parameters first, then mutable ones, each in parameter order.
CompLike(p) == IsComp(p) \/ IsOneOf(p)
RoParams(params) == SelectSeq(params, LAMBDA p : CompLike(p) /\ ~IsMut(p))
RwParams(params) == SelectSeq(params, LAMBDA p : CompLike(p) /\ IsMut(p))
BoundSeq(arch, params) ==
    LET ro == RoParams(params)
        rw == RwParams(params)
    IN [i \in 1..Len(ro) |-> BoundCol(arch, ro[i])] \o [i \in 1..Len(rw) |-> BoundCol(arch, rw[i])]
NumRo(params) == Len(RoParams(params))
=============================================================================
