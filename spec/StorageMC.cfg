SPECIFICATION Spec
CONSTANTS
  MaxCap = 4
  MaxSlotVer = 3
  MaxArchVer = 4
  Wrapping = FALSE
  DebugAsserts = TRUE
  InitCaps = {0, 1, 2, 3}
  Pinned = FALSE
  Edges = FALSE
  TrackDirect = TRUE
INVARIANTS RepInv GhostOk C01_ResolveIffLive C02_OwnValue C03_DirectInBounds C08_FreeIsNewer C09_Direct C12_Len NoBad
CHECK_DEADLOCK FALSE
