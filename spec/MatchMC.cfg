SPECIFICATION Spec
CONSTANTS
  PoolSeq <- Pool3
  MaxArch = 2
  MaxParams = 2
INVARIANTS Sound Complete Export
CHECK_DEADLOCK FALSE
