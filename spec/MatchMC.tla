------------------------------ MODULE MatchMC ------------------------------
(***************************************************************************)
(* Enumeration of (world declaration, query parameter list) programs with  *)
(* the outcome Match.tla assigns to each: compile error class, or the      *)
(* matched archetypes with the type every closure parameter is bound to.   *)
(* Each enumerated program is one TLC initial state; the invariant checks  *)
(* model-level sanity and prints the expected outcome, which lib/macro.py  *)
(* compares with the REAL generators (driven as a library for every        *)
(* program, and compiled + executed end to end for a stratified sample).   *)
(***************************************************************************)
EXTENDS Match, TLC, Json

CONSTANTS PoolSeq,      \* sequence of component names (canonical column order)
          MaxArch,      \* declarations have 1..MaxArch archetypes
          MaxParams,    \* parameter lists have 1..MaxParams parameters
          ColOrder      \* "canon": every archetype lists its columns in pool order;
                        \* "mixed": even-numbered archetypes list them in REVERSE pool order, so
                        \* that two archetypes hold the same components at different column
                        \* positions and a parameter list is in column order for at most one

ArchNames == <<"Aa", "Ab", "Ac">>
Pool == Range(PoolSeq)
CompSets == (SUBSET Pool) \ {{}}
ColsOf(S) == SelectSeq(PoolSeq, LAMBDA c : c \in S)
Rev(sq) == [k \in DOMAIN sq |-> sq[Len(sq) + 1 - k]]
MkDecl(f) == [i \in DOMAIN f |-> [name |-> ArchNames[i],
                                   cols |-> IF ColOrder = "mixed" /\ i % 2 = 0 THEN Rev(ColsOf(f[i])) ELSE ColsOf(f[i])]]
Decls == {MkDecl(f) : f \in UNION {[1..n -> CompSets] : n \in 1..MaxArch}}

OneOfTuple(kind, S) == <<kind>> \o ColsOf(S)
Alphabet ==
       {<<"comp", c>> : c \in Pool} \cup {<<"compmut", c>> : c \in Pool}
  \cup {OneOfTuple("oneof", S) : S \in CompSets} \cup {OneOfTuple("oneofmut", S) : S \in CompSets}
  \cup {<<"ent", ArchNames[i]>> : i \in 1..MaxArch} \cup {<<"dir", ArchNames[i]>> : i \in 1..MaxArch}
  \cup {<<"wild">>, <<"any">>, <<"dwild">>, <<"dany">>}
ParamLists == UNION {[1..k -> Alphabet] : k \in 1..MaxParams}

VARIABLE inp
Init == inp \in [decl : Decls, params : ParamLists]
Next == UNCHANGED inp
Spec == Init /\ [][Next]_inp

\* the type a parameter is bound to on a matched archetype, as the generator spells it
TypeOf(arch, p) ==
    CASE p[1] = "comp"     -> <<"&", p[2]>>
      [] p[1] = "compmut"  -> <<"&mut", p[2]>>
      [] p[1] = "oneof"    -> <<"&", BoundCol(arch, p)>>
      [] p[1] = "oneofmut" -> <<"&mut", BoundCol(arch, p)>>
      [] p[1] = "ent"      -> <<"&", "Entity<" \o p[2] \o ">">>
      [] p[1] = "wild"     -> <<"&", "Entity<" \o arch.name \o ">">>
      [] p[1] = "any"      -> <<"&", "EntityAny">>
      [] p[1] = "dir"      -> <<"&", "EntityDirect<" \o p[2] \o ">">>
      [] p[1] = "dwild"    -> <<"&", "EntityDirect<" \o arch.name \o ">">>
      [] p[1] = "dany"     -> <<"&", "EntityDirectAny">>

Expected(decl, params) ==
    LET oc == Outcome(decl, params)
        m  == Matched(decl, params)
    IN [decl |-> decl, params |-> params, outcome |-> oc,
        matched |-> IF oc = "ok"
                    THEN [i \in 1..Cardinality(m) |->
                            LET a == CHOOSE a \in m : Cardinality({b \in m : b < a}) = i - 1 IN
                            [name |-> decl[a].name,
                             types |-> [j \in DOMAIN params |-> TypeOf(decl[a], params[j])]]]
                    ELSE <<>>]

\* model-level sanity (C05 as stated): a matched archetype contains every named component,
\* exactly one component of every OneOf, and is the archetype a typed entity parameter names
Sound ==
    LET decl == inp.decl  params == inp.params IN
    \A a \in Matched(decl, params) : \A i \in DOMAIN params :
        LET p == params[i] IN
        /\ IsComp(p) => p[2] \in Range(decl[a].cols)
        /\ IsOneOf(p) => (Cardinality(Args(p) \cap Range(decl[a].cols)) = 1 /\ BoundCol(decl[a], p) \in Range(decl[a].cols))
        /\ p[1] \in {"ent", "dir"} => decl[a].name = p[2]
\* and conversely every archetype satisfying all of that is matched
Complete ==
    LET decl == inp.decl  params == inp.params IN
    \A a \in DOMAIN decl :
        (\A i \in DOMAIN params : LET p == params[i] IN
            /\ IsComp(p) => p[2] \in Range(decl[a].cols)
            /\ IsOneOf(p) => Cardinality(Args(p) \cap Range(decl[a].cols)) = 1
            /\ p[1] \in {"ent", "dir"} => decl[a].name = p[2])
        => a \in Matched(decl, params)
Export == PrintT(<<"PROG", ToJson(Expected(inp.decl, inp.params))>>)

Pool3 == <<"Ca", "Cb", "Cc">>
\* component names that are prefixes of each other (name matching must be exact)
PoolP == <<"Ca", "Cab", "Caba">>
Pool4 == <<"Ca", "Cb", "Cc", "Cd">>
\* identifier spellings the name -> field conversions must agree on (trailing, leading, doubled underscore)
PoolS == <<"Ca_", "_Cb", "C__c">>
\* ... and on capitalisation patterns: acronym followed by a word, all capitals, digit boundaries
PoolT == <<"UIState", "AABB", "Vec2D">>
=============================================================================
