----------------------------- MODULE MatchCfgMC -----------------------------
(***************************************************************************)
(* C16 for query parameters: every parameter may carry a cfg predicate;    *)
(* under a truth assignment the query must behave exactly like its twin    *)
(* with the disabled parameters deleted and the enabled ones unannotated.  *)
(* TLC enumerates (declaration, decorated parameter list, assignment) and  *)
(* prints the outcome Match.tla assigns to the twin.                       *)
(***************************************************************************)
EXTENDS Match, TLC, Json

CONSTANTS PoolSeq, MaxParams, Preds

ArchNames == <<"Aa", "Ab">>
Pool == Range(PoolSeq)
ColsOf(S) == SelectSeq(PoolSeq, LAMBDA c : c \in S)
\* a fixed family of declarations with overlapping component sets
Decls == {
    <<[name |-> "Aa", cols |-> ColsOf({"Ca", "Cb"})], [name |-> "Ab", cols |-> ColsOf({"Cb", "Cc"})]>>,
    <<[name |-> "Aa", cols |-> ColsOf({"Ca"})], [name |-> "Ab", cols |-> ColsOf({"Ca", "Cb", "Cc"})]>>,
    <<[name |-> "Aa", cols |-> ColsOf({"Ca", "Cc"})]>> }

Alphabet ==
       {<<"comp", c>> : c \in Pool} \cup {<<"compmut", c>> : c \in Pool}
  \cup {<<"oneof", "Ca", "Cc">>, <<"oneof", "Ca", "Cb">>, <<"oneofmut", "Cb", "Cc">>}
  \cup {<<"ent", "Aa">>, <<"ent", "Ab">>, <<"dir", "Ab">>, <<"wild">>, <<"any">>, <<"dwild">>, <<"dany">>}
\* pred: 0 = undecorated, p = #[cfg(p)], 12 / 21 = two STACKED attributes #[cfg(1)] #[cfg(2)] in
\* either order (the parameter is enabled iff both hold); stacks only on the first parameter, which
\* keeps the enumeration small and still reaches every (truth of first, truth of last) combination
Stacks == {12, 21}
DecoParams == UNION {{f \in [1..k -> [p : Alphabet, pred : Preds \cup {0} \cup Stacks]] :
                          \A i \in 2..k : f[i].pred \notin Stacks} : k \in 1..MaxParams}
Asgs == [Preds -> BOOLEAN]

VARIABLE inp
Init == inp \in [decl : Decls, dparams : DecoParams, asg : Asgs]
Next == UNCHANGED inp
Spec == Init /\ [][Next]_inp

EnabledP(dp) == CASE dp.pred = 0 -> TRUE
                  [] dp.pred \in Preds -> inp.asg[dp.pred]
                  [] OTHER -> \A q \in Preds : inp.asg[q]
Twin == LET en == SelectSeq(inp.dparams, EnabledP) IN [i \in DOMAIN en |-> en[i].p]

TypeOf(arch, p) ==
    CASE p[1] = "comp"     -> <<"&", p[2]>>
      [] p[1] = "compmut"  -> <<"&mut", p[2]>>
      [] p[1] = "oneof"    -> <<"&", BoundCol(arch, p)>>
      [] p[1] = "oneofmut" -> <<"&mut", BoundCol(arch, p)>>
      [] p[1] = "ent"      -> <<"&", "Entity<" \o p[2] \o ">">>
      [] p[1] = "wild"     -> <<"&", "Entity<" \o arch.name \o ">">>
      [] p[1] = "any"      -> <<"&", "EntityAny">>
      [] p[1] = "dir"      -> <<"&", "EntityDirect<" \o p[2] \o ">">>
      [] p[1] = "dwild"    -> <<"&", "EntityDirect<" \o arch.name \o ">">>
      [] p[1] = "dany"     -> <<"&", "EntityDirectAny">>

Export ==
    LET decl == inp.decl
        tw == Twin
        oc == Outcome(decl, tw)
        m  == Matched(decl, tw)
    IN PrintT(<<"CFGQ", ToJson([decl |-> decl,
                  dparams |-> [i \in DOMAIN inp.dparams |-> [p |-> inp.dparams[i].p, pred |-> inp.dparams[i].pred]],
                  asg |-> [p \in 1..Cardinality(Preds) |-> inp.asg[p]],
                  params |-> tw, outcome |-> oc,
                  matched |-> IF oc = "ok"
                    THEN [i \in 1..Cardinality(m) |->
                            LET a == CHOOSE a \in m : Cardinality({b \in m : b < a}) = i - 1 IN
                            [name |-> decl[a].name, types |-> [j \in DOMAIN tw |-> TypeOf(decl[a], tw[j])]]]
                    ELSE <<>>])>>)
Pool3 == <<"Ca", "Cb", "Cc">>
TwoPreds == {1, 2}
=============================================================================
