------------------------------ MODULE LoopsMC ------------------------------
(***************************************************************************)
(* The generated query loops over swap-remove storage (C06, C07):          *)
(*   ecs_iter! / ecs_iter_borrow!   per matched archetype, in declaration  *)
(*       order: len read once, idx = 0 .. len-1, Break returns from all    *)
(*   ecs_iter_destroy!              len read once, idx = len-1 .. 0,       *)
(*       slices re-fetched every step, the entity at idx visited, removed  *)
(*       by swap-remove on ContinueDestroy / BreakDestroy                  *)
(* (macros/src/generate/query.rs generate_query_iter / _iter_destroy).     *)
(* An archetype is its dense array (sequence of entity labels <<a, k>>).   *)
(* TLC enumerates every population (0..MaxN entities in each of two        *)
(* archetypes) x every decision function entity -> {c, b, cd, bd} x the    *)
(* loop kind, runs the index loop as a recursive function, checks the      *)
(* property on the result, and prints it for replay on the real crate.     *)
(***************************************************************************)
EXTENDS Integers, Sequences, FiniteSets, TLC, Json

CONSTANT MaxN

Labels(a, n) == [k \in 1..n |-> <<a, k>>]
SeqSet(s) == {s[i] : i \in DOMAIN s}

\* swap_remove: the last element moves into the hole
SwapRemove(d, i) == IF i = Len(d) THEN SubSeq(d, 1, Len(d) - 1)
                    ELSE [j \in 1..(Len(d) - 1) |-> IF j = i THEN d[Len(d)] ELSE d[j]]

\* one archetype of ecs_iter_destroy!: indices len0 .. 1 (1-based), dense re-read every step.
\* acc = [dense, visits, destroyed, stop]
RECURSIVE DestroyLoop(_, _, _)
DestroyLoop(idx, dec, acc) ==
    IF idx = 0 \/ acc.stop THEN acc
    ELSE LET e == acc.dense[idx]
             d == dec[e]
             acc1 == [acc EXCEPT !.visits = Append(@, e)]
             acc2 == IF d \in {"cd", "bd"}
                     THEN [acc1 EXCEPT !.dense = SwapRemove(@, idx), !.destroyed = @ \cup {e}] ELSE acc1
             acc3 == IF d \in {"b", "bd"} THEN [acc2 EXCEPT !.stop = TRUE] ELSE acc2
         IN DestroyLoop(idx - 1, dec, acc3)

\* one archetype of ecs_iter!: indices 1 .. len0
RECURSIVE IterLoop(_, _, _, _)
IterLoop(idx, len0, dec, acc) ==
    IF idx > len0 \/ acc.stop THEN acc
    ELSE LET e == acc.dense[idx]
             acc1 == [acc EXCEPT !.visits = Append(@, e)]
             acc2 == IF dec[e] \in {"b", "bd"} THEN [acc1 EXCEPT !.stop = TRUE] ELSE acc1
         IN IterLoop(idx + 1, len0, dec, acc2)

\* the whole query: archetypes in declaration order inside one closure, so stop ends everything
RunQuery(kind, denseA, denseB, dec) ==
    LET start == [dense |-> denseA, visits |-> <<>>, destroyed |-> {}, stop |-> FALSE]
        ra == IF kind = "iter_destroy" THEN DestroyLoop(Len(denseA), dec, start)
              ELSE IterLoop(1, Len(denseA), dec, start)
        sb == [dense |-> denseB, visits |-> ra.visits, destroyed |-> ra.destroyed, stop |-> ra.stop]
        rb == IF kind = "iter_destroy" THEN DestroyLoop(Len(denseB), dec, sb)
              ELSE IterLoop(1, Len(denseB), dec, sb)
    IN [a |-> ra.dense, b |-> rb.dense, visits |-> rb.visits, destroyed |-> rb.destroyed, stop |-> rb.stop]

Kinds == {"iter", "iter_destroy"}
Decs(kind) == IF kind = "iter_destroy" THEN {"c", "b", "cd", "bd"} ELSE {"c", "b"}

VARIABLE inp
Init == \E kind \in Kinds, na \in 0..MaxN, nb \in 0..MaxN :
           \E dec \in [SeqSet(Labels("A", na)) \cup SeqSet(Labels("B", nb)) -> Decs(kind)] :
               inp = [kind |-> kind, na |-> na, nb |-> nb, dec |-> dec]
Next == UNCHANGED inp
Spec == Init /\ [][Next]_inp

Res == RunQuery(inp.kind, Labels("A", inp.na), Labels("B", inp.nb), inp.dec)
All == SeqSet(Labels("A", inp.na)) \cup SeqSet(Labels("B", inp.nb))

\* C06 / C07 on the model
VisitOnce == Cardinality(SeqSet(Res.visits)) = Len(Res.visits) /\ SeqSet(Res.visits) \subseteq All
AllVisitedUnlessBreak == ~Res.stop => SeqSet(Res.visits) = All
StopsAtBreak == \A i \in DOMAIN Res.visits : inp.dec[Res.visits[i]] \in {"b", "bd"} => i = Len(Res.visits)
DestroysExactlyFlagged == Res.destroyed = {e \in SeqSet(Res.visits) : inp.dec[e] \in {"cd", "bd"}}
SurvivorsIntact == SeqSet(Res.a) \cup SeqSet(Res.b) = All \ Res.destroyed
                   /\ Len(Res.a) + Len(Res.b) = Cardinality(All \ Res.destroyed)

Export == PrintT(<<"LOOP", ToJson([kind |-> inp.kind, na |-> inp.na, nb |-> inp.nb,
              decA |-> [k \in 1..inp.na |-> inp.dec[<<"A", k>>]], decB |-> [k \in 1..inp.nb |-> inp.dec[<<"B", k>>]],
              visits |-> Res.visits, destroyed |-> Cardinality(Res.destroyed), stop |-> Res.stop,
              finalA |-> Res.a, finalB |-> Res.b])>>)
=============================================================================
