SPECIFICATION Spec
CONSTANTS
  MaxEnters = 2
  MaxDepth = 2
  ArchCols <- DefArchCols
  Empty <- NoneEmpty
  Ents <- TwoEnts
  ZstCols <- DefZst
INVARIANTS CellsMatchStack NoAliasing FreeAtRest Export
CHECK_DEADLOCK FALSE
