------------------------------- MODULE IdsMC -------------------------------
(***************************************************************************)
(* Enumerates decorated id declarations (explicit ids in any order, cfg    *)
(* predicates on items, every truth assignment) with the outcome Ids.tla   *)
(* assigns, for replay through the real DataWorld::new (macrolab) and, for *)
(* a sample, through rustc (compiled constants / compile errors).          *)
(***************************************************************************)
EXTENDS Ids, TLC, Json

CONSTANTS IdChoices,   \* explicit ids to choose from, -1 = none
          MaxItems,
          Preds        \* predicate names, e.g. {1, 2}

Items == [id : IdChoices, preds : SUBSET Preds]
Decls == UNION {[1..n -> Items] : n \in 1..MaxItems}
Asgs  == [Preds -> BOOLEAN]

VARIABLE inp
Init == inp \in [items : Decls, asg : Asgs]
Next == UNCHANGED inp
Spec == Init /\ [][Next]_inp

Red == Reduce(inp.items, inp.asg)
Res == Assign(Red)

\* C15: distinctness and the discriminant rule on every accepted declaration
RuleHolds == Res.ok => (Distinct(Res.ids) /\ FollowsRule(Red, Res.ids) /\ Len(Res.ids) = Len(Red))
\* C16: the outcome depends on the decoration only through the reduced declaration, i.e. it is
\* the outcome of the twin in which disabled items are deleted and enabled ones unannotated
Twin == [i \in DOMAIN Red |-> [id |-> Red[i].id, preds |-> {}]]
ReduceEquivalent == Assign(Twin) = Res

Export == PrintT(<<"IDS", ToJson([items |-> [i \in DOMAIN inp.items |-> [id |-> inp.items[i].id,
                                                 preds |-> [p \in 1..Cardinality(Preds) |-> p \in inp.items[i].preds]]],
                                   asg |-> [p \in 1..Cardinality(Preds) |-> inp.asg[p]],
                                   ok |-> Res.ok, ids |-> Res.ids, err |-> Res.err])>>)
IdsQuick == {-1, 0, 1, 255}
IdsEdge == {-1, 0, 127, 128, 254, 255, 256, 257, 65536}
IdsTiny == {-1, 1}
NoPreds == {}
ThreePreds == {1, 2, 3}
IdsFull == {-1, 0, 1, 2, 254, 255}
TwoPreds == {1, 2}
=============================================================================
