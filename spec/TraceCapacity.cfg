SPECIFICATION Spec
INVARIANT Report
POSTCONDITION Consumed
CHECK_DEADLOCK FALSE
