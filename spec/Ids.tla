-------------------------------- MODULE Ids --------------------------------
(***************************************************************************)
(* Archetype / component id assignment of ecs_world! (macros/src/data.rs   *)
(* advance_attribute_id + DataWorld::new): the enum-discriminant rule.     *)
(* An item is a record [id, preds]: explicit id or -1, and the set of cfg  *)
(* predicates decorating it.  cfg-disabled items are dropped BEFORE ids    *)
(* are assigned, so they never consume one (C15, C16).                     *)
(***************************************************************************)
EXTENDS Integers, Sequences, FiniteSets

\* an item is enabled iff every predicate decorating it is true
Enabled(item, asg) == \A p \in item.preds : asg[p]
Reduce(items, asg) == SelectSeq(items, LAMBDA it : Enabled(it, asg))

\* explicit id, else previous + 1, else 0; 256 stands for "would exceed 255"
NextId(item, last) == IF item.id >= 0 THEN item.id ELSE IF last >= 0 THEN last + 1 ELSE 0

\* result: [ok |-> TRUE, ids |-> <<...>>] or [ok |-> FALSE, err |-> "exceeds"|"duplicate", at |-> index]
RECURSIVE AssignFrom(_, _, _, _)
AssignFrom(items, i, last, acc) ==
    IF i > Len(items) THEN [ok |-> TRUE, ids |-> acc, err |-> "", at |-> 0]
    ELSE LET n == NextId(items[i], last) IN
         IF n > 255 THEN [ok |-> FALSE, ids |-> acc, err |-> "exceeds", at |-> i]
         ELSE IF \E j \in DOMAIN acc : acc[j] = n THEN [ok |-> FALSE, ids |-> acc, err |-> "duplicate", at |-> i]
         ELSE AssignFrom(items, i + 1, n, Append(acc, n))
Assign(items) == AssignFrom(items, 1, -1, <<>>)

\* C15 as stated: on success ids are pairwise distinct and follow the discriminant rule
Distinct(ids) == \A i, j \in DOMAIN ids : i # j => ids[i] # ids[j]
FollowsRule(items, ids) ==
    \A i \in DOMAIN items :
        ids[i] = IF items[i].id >= 0 THEN items[i].id ELSE IF i = 1 THEN 0 ELSE ids[i - 1] + 1
=============================================================================
