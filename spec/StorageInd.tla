----------------------------- MODULE StorageInd -----------------------------
(***************************************************************************)
(* Inductive invariant of the slot-map model (Storage.tla) for Apalache:   *)
(* generations and the archetype version range over ALL integers (no       *)
(* bound on the history length: the invariant holds after any number of    *)
(* create/destroy cycles, including 2^32 recycles of one position), for    *)
(* capacities up to N = MaxCap.  Two obligations:                          *)
(*   apalache-mc check --init=Init    --inv=IndInv --length=0              *)
(*   apalache-mc check --init=IndInit --inv=IndInv --length=1              *)
(* From IndInv follow, one line each (checked as invariants too):          *)
(*   FreshOnCreate  the next handle was never issued at its position (C08) *)
(*   StaleRejected  a handle older than its slot's generation, or of a free*)
(*                  slot, does not resolve (C01)                           *)
(*   FreeCovers     the free chain has exactly cap - len members (C12)     *)
(* Ghosts: hi[p] = highest generation ever issued at position p;           *)
(* rank[p] = distance of a free slot from the end of the free chain.       *)
(***************************************************************************)
EXTENDS Integers

CONSTANTS
    \* @type: Int;
    MaxCap,
    \* @type: Int;
    MaxSlotVer,
    \* @type: Int;
    MaxArchVer

\* fixed configuration facts (the default build: no wrapping; debug flag irrelevant here)
Wrapping == FALSE
DebugAsserts == FALSE

INSTANCE Storage

VARIABLES
    \* @type: $st;
    st,
    \* @type: Int -> Int;
    hi,
    \* @type: Int -> Int;
    rank

\* @type: <<$st, Int -> Int, Int -> Int>>;
vars == <<st, hi, rank>>

ConstInit == MaxCap = 6 /\ MaxSlotVer \in Int /\ MaxSlotVer >= 1 /\ MaxArchVer \in Int /\ MaxArchVer >= 1
ConstInit10 == MaxCap = 10 /\ MaxSlotVer \in Int /\ MaxSlotVer >= 1 /\ MaxArchVer \in Int /\ MaxArchVer >= 1

Init ==
    \E c \in 0..MaxCap :
        /\ st = New(c)
        /\ hi = [p \in Pos |-> 0]
        /\ rank = [p \in Pos |-> IF p < c THEN c - p ELSE 0]

\* ---- actions (same operators as StorageMC) --------------------------------------------
Create ==
    /\ PushOutcome(st) = "ok"
    /\ LET s1 == IF st.len >= st.cap THEN Grow(st) ELSE st
           p  == s1.head
       IN /\ st' = ForceCreate(s1)
          /\ hi' = [hi EXCEPT ![p] = s1.ver[p]]
          /\ rank' = IF st.len >= st.cap
                     THEN [q \in Pos |-> IF q >= st.len /\ q < s1.cap THEN s1.cap - q ELSE 0]
                     ELSE rank

CreateWithin ==
    /\ WithinOk(st)
    /\ st' = ForceCreate(st)
    /\ hi' = [hi EXCEPT ![st.head] = st.ver[st.head]]
    /\ UNCHANGED rank

Destroy ==
    \E p \in Pos :
        /\ p < st.cap /\ ~st.free[p]
        /\ ~DestroyPanics(st, p)
        /\ st' = ForceDestroy(st, p, st.idx[p])
        /\ rank' = [rank EXCEPT ![p] = st.cap - st.len + 1]
        /\ UNCHANGED hi

Stutter == UNCHANGED vars
Next == Create \/ CreateWithin \/ Destroy \/ Stutter

\* ---- the invariant ---------------------------------------------------------------------
TypeOK ==
    /\ st.cap \in 0..MaxCap /\ st.len \in 0..MaxCap
    /\ st.head \in -1..(MaxCap - 1)
    /\ \A p \in Pos : st.idx[p] \in -1..(MaxCap - 1) /\ st.dpos[p] \in 0..(MaxCap - 1)

IndInv ==
    /\ TypeOK
    /\ RepLocal(st)
    /\ st.aver <= MaxArchVer
    \* generations: a free slot is strictly newer than anything issued there, a live slot carries
    \* exactly the newest issued generation, an unused position has issued nothing
    /\ \A p \in Pos : p < st.cap =>
          /\ st.ver[p] <= MaxSlotVer /\ hi[p] >= 0
          /\ (st.free[p] => st.ver[p] > hi[p])
          /\ (~st.free[p] => st.ver[p] = hi[p])
    /\ \A p \in Pos : p >= st.cap => hi[p] = 0
    \* the free chain, made local by the rank ghost
    /\ \A p \in Pos : (p < st.cap /\ st.free[p]) =>
          /\ rank[p] >= 1 /\ rank[p] <= st.cap - st.len
          /\ (rank[p] = 1 <=> st.idx[p] = END)
          /\ (st.idx[p] # END => (st.idx[p] \in Pos /\ st.idx[p] < st.cap /\ st.free[st.idx[p]]
                                   /\ rank[st.idx[p]] = rank[p] - 1))
    /\ \A p, q \in Pos : (p < st.cap /\ q < st.cap /\ st.free[p] /\ st.free[q] /\ p # q) => rank[p] # rank[q]
    /\ (st.head # END => rank[st.head] = st.cap - st.len)

\* every variable gets a value from a set, then the invariant: the inductive step starts here
IndInit ==
    /\ \E c \in 0..MaxCap, l \in 0..MaxCap, av \in Int, hd \in -1..(MaxCap - 1) :
       \E fr \in [Pos -> BOOLEAN], ix \in [Pos -> Int], vr \in [Pos -> Int],
          dp \in [Pos -> Int], dv \in [Pos -> Int], vl \in [Pos -> Int] :
            st = [cap |-> c, len |-> l, aver |-> av, head |-> hd, free |-> fr, idx |-> ix, ver |-> vr,
                  dpos |-> dp, dver |-> dv, val |-> vl]
    /\ hi \in [Pos -> Int]
    /\ rank \in [Pos -> Int]
    /\ IndInv

\* ---- corollaries -----------------------------------------------------------------------
FreshOnCreate == (st.len < st.cap) => st.ver[st.head] > hi[st.head]
StaleRejected ==
    \A p \in Pos : \A g \in {hi[p] - 1, hi[p], hi[p] + 1, 1} :
        (p < st.cap /\ g >= 1 /\ ResolveEntity(st, p, g) >= 0) => (~st.free[p] /\ g = hi[p] /\ g = st.ver[p])
FreeCovers == (st.len < st.cap) => (st.head # END /\ rank[st.head] = st.cap - st.len)
Corollaries == IndInv => (FreshOnCreate /\ StaleRejected /\ FreeCovers)
\* vacuity guard: a false "invariant" that the inductive step must refute
Bogus == st.aver < 1000
=============================================================================
