------------------------------ MODULE WorldMC ------------------------------
(***************************************************************************)
(* Two worlds over the implementation-level storage model (C13, C03 cross- *)
(* world): create / destroy by any handle of the universe in either world, *)
(* clone into an empty slot, clone_from over an existing world, drop.      *)
(* A clone is the field-for-field copy of the source storage (all capacity *)
(* slots, free-list head, versions): TLC explores every reachable state at *)
(* clone time followed by every diverging continuation within the bounds,  *)
(* checks the representation invariant in both worlds, and exports the     *)
(* transitions; lib/tour.py replays them on the real crate, where both     *)
(* worlds are dumped, snapshotted and probed (with each other's handles)   *)
(* after every step and compared with the model.                           *)
(***************************************************************************)
EXTENDS Integers, FiniteSets, Sequences, TLC, Json

CONSTANTS MaxCap, MaxSlotVer, MaxArchVer, InitCaps, MaxOps, MaxLen, Edges,
          Events,  \* TRUE: feature `events` -- per-world created / destroyed logs, clear_events
          Loops    \* TRUE: ecs_iter_destroy! with every non-empty set of flagged entities is an action
Wrapping == FALSE
DebugAsserts == TRUE

S == INSTANCE Storage

VARIABLES ex,    \* ex[w]: world w exists
          W,     \* W[w]: its storage record (canonical empty record when it does not exist)
          ops,   \* number of operations so far (bounds the histories)
          cr,    \* cr[w]: the archetype's `created` log (sequence of <<pos, gen>>); <<>> without Events
          ds     \* ds[w]: the `destroyed` log
vars == <<ex, W, ops, cr, ds>>

Worlds == {1, 2}
HandleU == (0..(MaxCap - 1)) \X (1..MaxSlotVer)
None == S!New(0)

Init == /\ \E c \in InitCaps : W = [w \in Worlds |-> IF w = 1 THEN S!New(c) ELSE None]
        /\ ex = [w \in Worlds |-> w = 1]
        /\ ops = 0
        /\ cr = [w \in Worlds |-> <<>>]
        /\ ds = [w \in Worlds |-> <<>>]

Proj(s) == [cap |-> s.cap, len |-> s.len, aver |-> s.aver, head |-> s.head,
            slots |-> [p \in 1..s.cap |-> <<IF s.free[p - 1] THEN 1 ELSE 0, s.idx[p - 1], s.ver[p - 1]>>],
            dense |-> [i \in 1..s.len |-> <<s.dpos[i - 1], s.dver[i - 1]>>]]
ProjW(e, ws, c, d) == [w \in Worlds |-> IF ~e[w] THEN <<"none">>
                                       ELSE IF Events THEN <<"world", Proj(ws[w]), c[w], d[w]>>
                                       ELSE <<"world", Proj(ws[w])>>]
Edge(op, arg, e2, w2, c2, d2) ==
    IF Edges THEN PrintT(<<"WEDGE", ToJson([from |-> ProjW(ex, W, cr, ds), op |-> op, arg |-> arg, to |-> ProjW(e2, w2, c2, d2)])>>) ELSE TRUE
Log(l, w, h) == IF Events THEN [l EXCEPT ![w] = Append(@, h)] ELSE l

Step == ops < MaxOps /\ ops' = ops + 1

Create(w) ==
    /\ Step /\ ex[w] /\ S!PushOutcome(W[w]) = "ok"
    /\ W[w].len < MaxLen
    /\ W' = [W EXCEPT ![w] = S!Push(W[w])]
    /\ cr' = Log(cr, w, <<S!NextPos(W[w]), S!NextGen(W[w])>>)      \* force_create pushes the new handle
    /\ UNCHANGED <<ex, ds>>
    /\ Edge("create", <<w, IF W[w].len < W[w].cap THEN 1 ELSE 0>>, ex, W', cr', ds')

Destroy(w) ==
    \E h \in HandleU :
        LET r == S!ResolveEntity(W[w], h[1], h[2]) IN
        /\ Step /\ ex[w] /\ r >= 0
        /\ ~S!DestroyPanics(W[w], h[1])
        /\ W' = [W EXCEPT ![w] = S!ForceDestroy(W[w], h[1], r)]
        /\ ds' = Log(ds, w, h)                                       \* force_destroy pushes the removed handle
        /\ UNCHANGED <<ex, cr>>
        /\ Edge("destroy", <<w, h[1], h[2]>>, ex, W', cr', ds')

Clone(src, dst) ==
    /\ Step /\ src # dst /\ ex[src]
    /\ W' = [W EXCEPT ![dst] = W[src]]
    /\ ex' = [ex EXCEPT ![dst] = TRUE]
    /\ cr' = [cr EXCEPT ![dst] = cr[src]]                              \* pending events are cloned (C13)
    /\ ds' = [ds EXCEPT ![dst] = ds[src]]
    /\ Edge(IF ex[dst] THEN "clone_from" ELSE "clone", <<src, dst>>, ex', W', cr', ds')

Drop(w) ==
    /\ Step /\ ex[w] /\ \E v \in Worlds : v # w /\ ex[v]
    /\ W' = [W EXCEPT ![w] = None]
    /\ ex' = [ex EXCEPT ![w] = FALSE]
    /\ cr' = [cr EXCEPT ![w] = <<>>]
    /\ ds' = [ds EXCEPT ![w] = <<>>]
    /\ Edge("drop", <<w>>, ex', W', cr', ds')

\* ecs_iter_destroy! over world w with the decision ContinueDestroy for the handles in F and Continue
\* for the others (macros/src/generate/query.rs generate_query_iter_destroy): len is read once, the
\* index runs from len-1 down to 0, the entity found at the index is visited and, when flagged, removed
\* by the same force_destroy as a single destroy (swap-remove, relink, both generation bumps, one
\* entry in the destroyed log) before the index moves on.
RECURSIVE LoopD(_, _, _, _)
LoopD(s, dl, idx, F) ==
    IF idx < 0 THEN [s |-> s, d |-> dl]
    ELSE LET h == <<s.dpos[idx], s.dver[idx]>> IN
         IF h \in F THEN LoopD(S!ForceDestroy(s, h[1], idx), Append(dl, h), idx - 1, F)
         ELSE LoopD(s, dl, idx - 1, F)
LiveOf(s) == {<<s.dpos[i], s.dver[i]>> : i \in {j \in 0..(MaxCap - 1) : j < s.len}}
DestroyLoop(w) ==
    \E F \in {G \in SUBSET LiveOf(W[w]) : Cardinality(G) >= 2} :    \* one flagged entity = a single destroy
        LET r == LoopD(W[w], <<>>, W[w].len - 1, F) IN
        /\ Loops /\ Step /\ ex[w]
        /\ \A h \in F : W[w].ver[h[1]] < MaxSlotVer               \* no overflow panic inside the loop
        /\ W[w].aver + Cardinality(F) <= MaxArchVer
        /\ W' = [W EXCEPT ![w] = r.s]
        /\ ds' = IF Events THEN [ds EXCEPT ![w] = @ \o r.d] ELSE ds
        /\ UNCHANGED <<ex, cr>>
        /\ Edge("loop_destroy", <<w, r.d>>, ex, W', cr', ds')

\* clear_events (world- or archetype-level: the replay alternates): both logs emptied, nothing else
ClearEvents(w) ==
    /\ Events /\ Step /\ ex[w]
    /\ cr[w] # <<>> \/ ds[w] # <<>>
    /\ cr' = [cr EXCEPT ![w] = <<>>]
    /\ ds' = [ds EXCEPT ![w] = <<>>]
    /\ UNCHANGED <<ex, W>>
    /\ Edge("clear_events", <<w>>, ex, W, cr', ds')

Next == \E w \in Worlds : Create(w) \/ Destroy(w) \/ DestroyLoop(w) \/ Drop(w) \/ ClearEvents(w) \/ (\E v \in Worlds : Clone(w, v))
Spec == Init /\ [][Next]_vars

\* free chain of one storage (as in StorageMC)
ChainSeq(s) ==
    LET RECURSIVE Walk(_, _, _)
        Walk(p, n, acc) == IF p = S!END THEN acc
                           ELSE IF n = 0 \/ p < 0 \/ p >= s.cap \/ ~s.free[p] THEN acc \o <<-2>>
                           ELSE Walk(s.idx[p], n - 1, acc \o <<p>>)
    IN Walk(s.head, s.cap + 1, <<>>)
SeqSet(q) == {q[i] : i \in DOMAIN q}
ChainOk(s) == LET c == ChainSeq(s) IN
    /\ -2 \notin SeqSet(c) /\ Cardinality(SeqSet(c)) = Len(c)
    /\ SeqSet(c) = {p \in 0..(MaxCap - 1) : p < s.cap /\ s.free[p]} /\ Len(c) = s.cap - s.len
RepInv == \A w \in Worlds : ex[w] => (S!RepLocal(W[w]) /\ ChainOk(W[w]))
\* C03 across worlds: a handle resolves in a world only to a cell carrying exactly that handle
CrossWorldSafe ==
    \A w \in Worlds : ex[w] => \A h \in HandleU :
        LET r == S!ResolveEntity(W[w], h[1], h[2]) IN
        r >= 0 => (r < W[w].len /\ W[w].dpos[r] = h[1] /\ W[w].dver[r] = h[2])
\* C17 at the level of the implementation model: the logs never repeat a handle, everything in the
\* destroyed log is dead, everything created and not destroyed since the last clear is alive,
\* a non-existing world has no logs, and without the feature there are none at all
SeqSetOf(q) == {q[i] : i \in DOMAIN q}
EventsOk ==
    \A w \in Worlds :
        /\ (~Events \/ ~ex[w]) => (cr[w] = <<>> /\ ds[w] = <<>>)
        /\ Cardinality(SeqSetOf(cr[w])) = Len(cr[w])
        /\ Cardinality(SeqSetOf(ds[w])) = Len(ds[w])
        /\ \A h \in SeqSetOf(ds[w]) : S!ResolveEntity(W[w], h[1], h[2]) < 0
        /\ \A h \in SeqSetOf(cr[w]) \ SeqSetOf(ds[w]) : S!ResolveEntity(W[w], h[1], h[2]) >= 0

\* Refinement: the two-world slot-map model implements the abstract worlds of AbsWorld.tla
DenseSetOf(s) == {<<s.dpos[i], s.dver[i]>> : i \in {j \in 0..(MaxCap - 1) : j < s.len}}
AW == INSTANCE AbsWorld WITH Worlds <- Worlds, Tokens <- HandleU, WithEvents <- Events,
                             wEx <- ex, wLive <- [w \in Worlds |-> DenseSetOf(W[w])], wCr <- cr, wDs <- ds
RefinesW == AW!WSpec
=============================================================================
