------------------------------ MODULE WorldMC ------------------------------
(***************************************************************************)
(* Two worlds over the implementation-level storage model (C13, C03 cross- *)
(* world): create / destroy by any handle of the universe in either world, *)
(* clone into an empty slot, clone_from over an existing world, drop.      *)
(* A clone is the field-for-field copy of the source storage (all capacity *)
(* slots, free-list head, versions): TLC explores every reachable state at *)
(* clone time followed by every diverging continuation within the bounds,  *)
(* checks the representation invariant in both worlds, and exports the     *)
(* transitions; lib/tour.py replays them on the real crate, where both     *)
(* worlds are dumped, snapshotted and probed (with each other's handles)   *)
(* after every step and compared with the model.                           *)
(***************************************************************************)
EXTENDS Integers, FiniteSets, Sequences, TLC, Json

CONSTANTS MaxCap, MaxSlotVer, MaxArchVer, InitCaps, MaxOps, MaxLen, Edges
Wrapping == FALSE
DebugAsserts == TRUE

S == INSTANCE Storage

VARIABLES ex,    \* ex[w]: world w exists
          W,     \* W[w]: its storage record (canonical empty record when it does not exist)
          ops    \* number of operations so far (bounds the histories)
vars == <<ex, W, ops>>

Worlds == {1, 2}
HandleU == (0..(MaxCap - 1)) \X (1..MaxSlotVer)
None == S!New(0)

Init == /\ \E c \in InitCaps : W = [w \in Worlds |-> IF w = 1 THEN S!New(c) ELSE None]
        /\ ex = [w \in Worlds |-> w = 1]
        /\ ops = 0

Proj(s) == [cap |-> s.cap, len |-> s.len, aver |-> s.aver, head |-> s.head,
            slots |-> [p \in 1..s.cap |-> <<IF s.free[p - 1] THEN 1 ELSE 0, s.idx[p - 1], s.ver[p - 1]>>],
            dense |-> [i \in 1..s.len |-> <<s.dpos[i - 1], s.dver[i - 1]>>]]
ProjW(e, ws) == [w \in Worlds |-> IF e[w] THEN <<"world", Proj(ws[w])>> ELSE <<"none">>]
Edge(op, arg, e2, w2) ==
    IF Edges THEN PrintT(<<"WEDGE", ToJson([from |-> ProjW(ex, W), op |-> op, arg |-> arg, to |-> ProjW(e2, w2)])>>) ELSE TRUE

Step == ops < MaxOps /\ ops' = ops + 1

Create(w) ==
    /\ Step /\ ex[w] /\ S!PushOutcome(W[w]) = "ok"
    /\ W[w].len < MaxLen
    /\ W' = [W EXCEPT ![w] = S!Push(W[w])]
    /\ UNCHANGED ex
    /\ Edge("create", <<w, IF W[w].len < W[w].cap THEN 1 ELSE 0>>, ex, W')

Destroy(w) ==
    \E h \in HandleU :
        LET r == S!ResolveEntity(W[w], h[1], h[2]) IN
        /\ Step /\ ex[w] /\ r >= 0
        /\ ~S!DestroyPanics(W[w], h[1])
        /\ W' = [W EXCEPT ![w] = S!ForceDestroy(W[w], h[1], r)]
        /\ UNCHANGED ex
        /\ Edge("destroy", <<w, h[1], h[2]>>, ex, W')

Clone(src, dst) ==
    /\ Step /\ src # dst /\ ex[src]
    /\ W' = [W EXCEPT ![dst] = W[src]]
    /\ ex' = [ex EXCEPT ![dst] = TRUE]
    /\ Edge(IF ex[dst] THEN "clone_from" ELSE "clone", <<src, dst>>, ex', W')

Drop(w) ==
    /\ Step /\ ex[w] /\ \E v \in Worlds : v # w /\ ex[v]
    /\ W' = [W EXCEPT ![w] = None]
    /\ ex' = [ex EXCEPT ![w] = FALSE]
    /\ Edge("drop", <<w>>, ex', W')

Next == \E w \in Worlds : Create(w) \/ Destroy(w) \/ Drop(w) \/ (\E v \in Worlds : Clone(w, v))
Spec == Init /\ [][Next]_vars

\* free chain of one storage (as in StorageMC)
ChainSeq(s) ==
    LET RECURSIVE Walk(_, _, _)
        Walk(p, n, acc) == IF p = S!END THEN acc
                           ELSE IF n = 0 \/ p < 0 \/ p >= s.cap \/ ~s.free[p] THEN acc \o <<-2>>
                           ELSE Walk(s.idx[p], n - 1, acc \o <<p>>)
    IN Walk(s.head, s.cap + 1, <<>>)
SeqSet(q) == {q[i] : i \in DOMAIN q}
ChainOk(s) == LET c == ChainSeq(s) IN
    /\ -2 \notin SeqSet(c) /\ Cardinality(SeqSet(c)) = Len(c)
    /\ SeqSet(c) = {p \in 0..(MaxCap - 1) : p < s.cap /\ s.free[p]} /\ Len(c) = s.cap - s.len
RepInv == \A w \in Worlds : ex[w] => (S!RepLocal(W[w]) /\ ChainOk(W[w]))
\* C03 across worlds: a handle resolves in a world only to a cell carrying exactly that handle
CrossWorldSafe ==
    \A w \in Worlds : ex[w] => \A h \in HandleU :
        LET r == S!ResolveEntity(W[w], h[1], h[2]) IN
        r >= 0 => (r < W[w].len /\ W[w].dpos[r] = h[1] /\ W[w].dver[r] = h[2])
=============================================================================
