--------------------------- MODULE TraceCapacity ---------------------------
(***************************************************************************)
(* Validates bulk events recorded from the real crate at the real 2^24     *)
(* limit (harness `bigcap`) against Capacity.tla.  Monitor form as in      *)
(* TraceContract: violations are collected, the trace is always consumed.  *)
(***************************************************************************)
EXTENDS Integers, Sequences, FiniteSets, TLC, Json, IOUtils, Capacity

Rec == ndJsonDeserialize(IOEnv.TRACE)
Max == Rec[1].max

VARIABLES l, len, cap, viol
vars == <<l, len, cap, viol>>

V(at, what) == [p |-> <<"C12">>, at |-> at, what |-> what]
If(c, s) == IF c THEN s ELSE {}
NonDecreasing(s) == \A i \in 1..(Len(s) - 1) : s[i] <= s[i + 1]

Check(ev, at) ==
    CASE ev.op = "decl" -> {}
      [] ev.op = "with_capacity" ->
             If(WithCapacityOk(ev.n, Max) /\ ev.out # "ok", {V(at, "with_capacity within the limit panicked")})
        \cup If(~WithCapacityOk(ev.n, Max) /\ ev.out = "ok", {V(at, "with_capacity beyond 2^24 did not panic")})
        \cup If(ev.out = "ok" /\ (ev.cap < ev.n \/ ev.len # 0 \/ ~ev.emp), {V(at, "with_capacity(n) is not an empty archetype holding at least n")})
      [] ev.op = "fill" /\ ev.within ->
             If(ev.done # WithinDone(len, cap, ev.n), {V(at, "create_within_capacity did not succeed exactly len() < capacity() times")})
        \cup If(ev.stop # WithinStop(len, cap, ev.n), {V(at, "create_within_capacity bulk ended differently from the model")})
        \cup If(ev.cap # cap, {V(at, "create_within_capacity changed capacity()")})
        \cup If(ev.len # len + ev.done, {V(at, "len() differs from the number of creations")})
        \cup If(ev.step_errors # 0, {V(at, "a single step broke len/capacity/argument-return rules")})
      [] ev.op = "fill" /\ ~ev.within ->
             If(ev.done # CreateDone(len, ev.n, Max), {V(at, "create did not succeed exactly while below 2^24")})
        \cup If(ev.stop # CreateStop(len, ev.n, Max), {V(at, "create ended differently from the model (panic below the limit, or none at it)")})
        \cup If(ev.len # len + ev.done, {V(at, "len() differs from the number of creations")})
        \cup If(ev.cap < cap \/ ~NonDecreasing(ev.caps) \/ ev.caps[1] # cap, {V(at, "capacity() decreased")})
        \cup If(len + ev.done <= cap /\ ev.cap # cap, {V(at, "capacity() changed although there was room")})
        \cup If(ev.step_errors # 0, {V(at, "a single step broke len/capacity rules")})
      [] ev.op = "destroy_many" ->
             If(ev.wrong # 0, {[p |-> <<"C12", "C01">>, at |-> at, what |-> "destroy of a live entity failed or left it reachable"]})
        \cup If(ev.len # len - ev.removed \/ ev.cap # cap, {V(at, "len()/capacity() wrong after removals")})
      [] ev.op = "direct_distance" ->
             If(ev.accepted_stale # 0, {[p |-> <<"C09">>, at |-> at,
                    what |-> "a direct handle is accepted again after 2^k (really performed) removals from its archetype"]})
        \cup If(ev.refused_fresh # 0, {[p |-> <<"C09", "C01">>, at |-> at, what |-> "a current handle (direct handle minted after the last removal, or the live occupant of the recycled slot) is refused"]})
        \cup If("accepted_stale_entity" \in DOMAIN ev /\ ev.accepted_stale_entity # 0, {[p |-> <<"C01", "C08">>, at |-> at,
                    what |-> "a stale entity handle is accepted again after 2^k (really performed) recyclings of its slot"]})
      [] ev.op = "probe" ->
             If(ev.listed # len, {V(at, "entities() length differs from len()")})
        \cup If(ev.wrong # 0, {[p |-> <<"C12", "C01", "C02", "C14">>, at |-> at,
                                 what |-> "a sampled handle (positions next to powers of two included) is not unique, resolves inconsistently, reads another value or fails the raw round trip"]})
\* invariants of every observed state
StateViol(ev, at) ==
    IF ev.op = "decl" \/ ev.len = -1 THEN {}
    ELSE If(~Inv(ev.len, ev.cap, Max), {V(at, "len <= capacity <= 2^24 violated")})
    \cup If(ev.emp # (ev.len = 0), {V(at, "is_empty() disagrees with len()")})

Init == l = 1 /\ len = 0 /\ cap = 0 /\ viol = {}
Next == /\ l <= Len(Rec)
        /\ LET ev == Rec[l] IN
           /\ viol' = viol \cup Check(ev, l) \cup StateViol(ev, l)
           /\ len' = IF ev.op = "decl" \/ ev.len = -1 THEN 0 ELSE ev.len
           /\ cap' = IF ev.op = "decl" \/ ev.len = -1 THEN 0 ELSE ev.cap
        /\ l' = l + 1
Spec == Init /\ [][Next]_vars
Report == (l = Len(Rec) + 1) => PrintT(<<"VIOLATIONS", ToJson(viol)>>)
Consumed == IF TLCGet("stats").diameter = Len(Rec) + 1 THEN TRUE
            ELSE PrintT(<<"STOPPED_AT", TLCGet("stats").diameter>>) /\ FALSE
=============================================================================
