SPECIFICATION Spec
CONSTANT MaxN = 2
INVARIANTS VisitOnce AllVisitedUnlessBreak StopsAtBreak DestroysExactlyFlagged SurvivorsIntact Export
CHECK_DEADLOCK FALSE
