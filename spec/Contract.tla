------------------------------ MODULE Contract ------------------------------
(***************************************************************************)
(* The user-visible contract of a gecs world, written against opaque       *)
(* handle tokens.  Everything here is representation-free: it never looks  *)
(* at positions, generations or dense indices except (a) to compare tokens *)
(* for equality, (b) in the glue invariant that ties a structural dump of  *)
(* the real storage to the contract state (RepInv / Glue, at the end).     *)
(*                                                                         *)
(* The module is a library of pure operators over a "contract state":      *)
(*   st.W      : world id -> world record (below), DOMAIN = existing worlds*)
(*   st.dead   : ids of component values dropped so far in this run        *)
(*   st.leaked : ids a previously injected fault is allowed to have leaked *)
(*   st.zleak  : upper bound on leaked zero-sized values (counted only)    *)
(* World record:                                                           *)
(*   alive  : token -> [a, vals]   live entities (vals = <<<<id,payload>>>>)*)
(*   issued : set of tokens ever returned by a create of this world        *)
(*   cap    : capacity per archetype (sequence, index a+1)                 *)
(*   rm, cr : number of removals / creations per archetype                 *)
(*   dirs   : direct-handle records [d, t, a, born, src] (born = rm at      *)
(*            minting; src = where it was minted: mint-all, to_direct,     *)
(*            a closure parameter, a closure parameter of ecs_iter_destroy!)*)
(*   deadD  : direct-handle tokens that have died (a removal happened     *)
(*            after they were issued); must never be current again        *)
(*   evc,evd: pending created / destroyed events per archetype (sets)      *)
(*   aver   : archetype version last seen in a dump (for overflow faults)  *)
(*   wrapped / awrapped: per archetype, a slot generation / the archetype  *)
(*            version has wrapped (feature wrapping_version only)          *)
(* Every check yields violation records [p, at, what]; p is the sequence   *)
(* of property ids the broken clause belongs to.                           *)
(***************************************************************************)
EXTENDS Integers, Sequences, FiniteSets, TLC, Match

CONSTANT Decl   \* the "decl" event: archetypes, query menu, build configuration

NA       == Len(Decl.archs)
Archs    == 0..(NA - 1)
DeclSeq  == [i \in 1..NA |-> [name |-> Decl.archs[i].name, id |-> Decl.archs[i].id,
                              cols |-> Decl.archs[i].cols]]
IdOf(a)  == Decl.archs[a + 1].id
HasId(id) == \E a \in Archs : IdOf(a) = id
ArchOf(id) == CHOOSE a \in Archs : IdOf(a) = id
QParams(q) == Decl.queries[q + 1]
MaxGen   == <<65535, 65535>>
RealMaxCap == 16777216
Gen(t)   == <<t[3], t[4]>>
GenLt(g, h) == g[1] < h[1] \/ (g[1] = h[1] /\ g[2] < h[2])

V(tags, at, what) == [p |-> tags, at |-> at, what |-> what]
If(c, s) == IF c THEN s ELSE {}

SeqSet(s) == {s[i] : i \in DOMAIN s}
NoDup(s)  == Cardinality(SeqSet(s)) = Len(s)
Remove(f, k) == [x \in DOMAIN f \ {k} |-> f[x]]
Ids(vals) == {vals[i][1] : i \in DOMAIN vals} \ {0}
LiveOn(w, a) == {t \in DOMAIN w.alive : w.alive[t].a = a}
LenOf(w, a)  == Cardinality(LiveOn(w, a))
OwnedIds(w)  == UNION {Ids(w.alive[t].vals) : t \in DOMAIN w.alive}
\* Column classes named by the trace header: zero-sized columns (a RefCell but no payload, counted
\* by number only) and columns whose type has NO drop glue but an observable Clone (identity 0,
\* a payload, Clone::clone calls counted): "cloned exactly once" must hold for them too.
ZstNames == IF "zst" \in DOMAIN Decl THEN SeqSet(Decl.zst) ELSE {"Tz"}
NdNames  == IF "nodrop" \in DOMAIN Decl THEN SeqSet(Decl.nodrop) ELSE {}
ColNames(a) == Decl.archs[a + 1].cols
HasZst(a)   == \E i \in DOMAIN ColNames(a) : ColNames(a)[i] \in ZstNames
NdPer(a)    == Cardinality({i \in DOMAIN ColNames(a) : ColNames(a)[i] \in NdNames})
ZCount(w)    == Cardinality({t \in DOMAIN w.alive : HasZst(w.alive[t].a)})
RECURSIVE SumNd(_, _)
SumNd(w, S) == IF S = {} THEN 0 ELSE LET t == CHOOSE t \in S : TRUE IN NdPer(w.alive[t].a) + SumNd(w, S \ {t})
NCount(w)    == SumNd(w, DOMAIN w.alive)
NCountOn(w, a) == NdPer(a) * Cardinality({t \in DOMAIN w.alive : w.alive[t].a = a})

Zeros == [i \in 1..NA |-> 0]
NewWorld(caps) ==
    [alive |-> <<>>, issued |-> {}, cap |-> caps, rm |-> Zeros, cr |-> Zeros, dirs |-> {},
     evc |-> [i \in 1..NA |-> {}], evd |-> [i \in 1..NA |-> {}],
     aver |-> [i \in 1..NA |-> <<0, 1>>], wrapped |-> [i \in 1..NA |-> FALSE],
     awrapped |-> [i \in 1..NA |-> FALSE], deadD |-> {}]

(***************************************************************************)
(* Keys.  A key record is [k, kd, lv, at]: token, kind ("e" typed entity,  *)
(* "a" dynamic entity, "d" typed direct, "da" dynamic direct), level ("w"  *)
(* world, "a" archetype) and the archetype an archetype-level call is made *)
(* on.  C01: an entity key is accepted iff its token is alive (and, on an  *)
(* archetype-level call, lives in that archetype).  C09: a direct key is   *)
(* accepted iff some record minted for exactly this token is still current *)
(* (no removal from its archetype since it was minted).                    *)
(***************************************************************************)
IsDirKey(ky) == ky.kd \in {"d", "da"}
\* records of token k with no REMOVAL from their archetype since minting: the handle may still be
\* accepted; with no structural change at all (no creation either) it must be accepted (C09: "stays
\* accepted for as long as its archetype undergoes no later structural change").  An implementation
\* that also invalidates direct handles on creation therefore satisfies the contract.
ValidDirs(w, k) == {r \in w.dirs : r.d = k /\ r.born = w.rm[r.a + 1]}
MustDirs(w, k)  == {r \in ValidDirs(w, k) : r.bornc = w.cr[r.a + 1]}
KnownDir(w, k)  == \E r \in w.dirs : r.d = k
DirTargets(w, k) == {r.t : r \in ValidDirs(w, k)}

EntAccepted(w, k, lv, at) == k \in DOMAIN w.alive /\ (lv = "w" \/ w.alive[k].a = at)
DirAccepted(w, k, lv, at) == \E r \in ValidDirs(w, k) : (lv = "w" \/ r.a = at)
DirMust(w, k, lv, at)     == \E r \in MustDirs(w, k) : (lv = "w" \/ r.a = at)

\* may the call accept the key / must it accept the key
Accepted(w, ky) == IF IsDirKey(ky) THEN DirAccepted(w, ky.k, ky.lv, ky.at)
                   ELSE EntAccepted(w, ky.k, ky.lv, ky.at)
MustAccept(w, ky) == IF IsDirKey(ky) THEN DirMust(w, ky.k, ky.lv, ky.at)
                     ELSE EntAccepted(w, ky.k, ky.lv, ky.at)
Target(w, ky)   == IF IsDirKey(ky) THEN CHOOSE t \in DirTargets(w, ky.k) : TRUE ELSE ky.k
Foreign(w, ky)  == IF IsDirKey(ky) THEN ~KnownDir(w, ky.k) ELSE ky.k \notin w.issued
WrongAccept(w, ky) == IF Foreign(w, ky) THEN <<"C03">>
                      ELSE IF IsDirKey(ky) THEN <<"C09">> ELSE <<"C01">>
WrongReject(w, ky) == IF IsDirKey(ky) THEN <<"C09", "C01">> ELSE <<"C01">>

\* Documented overflow panic of a removal (default configuration only)
OverflowDue(w, t) == /\ ~Decl.wrapping
                     /\ (Gen(t) = MaxGen \/ w.aver[w.alive[t].a + 1] = MaxGen)

RemoveEnt(w, t) ==
    LET a == w.alive[t].a IN
    \* with wrapping_version a removal at the limit wraps the generation / archetype version:
    \* from then on reuse of ancient handles is the documented exception (C08, C09, C19)
    [w EXCEPT !.alive = Remove(@, t), !.rm[a + 1] = @ + 1, !.evd[a + 1] = @ \cup {t},
              !.wrapped[a + 1] = @ \/ (Decl.wrapping /\ Gen(t) = MaxGen),
              !.awrapped[a + 1] = @ \/ (Decl.wrapping /\ w.aver[a + 1] = MaxGen)]

(***************************************************************************)
(* Registry accounting shared by all operations (C04): the values dropped  *)
(* during an operation are exactly `exp` (or, when an injected fault made  *)
(* the operation panic, a duplicate-free subset), none was dropped before. *)
(***************************************************************************)
DropViol(st, ev, exp, exact, at) ==
    LET ds == SeqSet(ev.drops) IN
       If(~NoDup(ev.drops), {V(<<"C04", "C10">>, at, "value dropped twice within one operation")})
    \cup If(ds \cap st.dead # {}, {V(<<"C04", "C10">>, at, "value dropped again in a later operation")})
    \cup If(~(ds \subseteq exp), {V(<<"C04", "C10">>, at, "operation dropped a value it must not drop")})
    \cup If(exact /\ ds # exp, {V(<<"C04">>, at, "operation did not drop exactly the values it released")})

AnomTags(kind) ==
    CASE kind \in {"double_drop", "drop_of_unknown", "clone_of_non_live",
                   "drop_during_observation"}                         -> <<"C04", "C10", "C03">>
      [] kind \in {"read_of_non_live"}                                -> <<"C02", "C03", "C10", "C04">>
      [] kind \in {"corrupt_Th", "corrupt_Tw", "misaligned_Tal",
                   "corrupt_Qb", "corrupt_Qc", "corrupt_Qd", "corrupt_Qh"} -> <<"C02">>
      [] kind \in {"slice_len", "bslice_len", "iter_count", "iter_last", "iter_nth", "iter_mut_last",
                   "iter_mut_positional_count", "iter_skip_take_order"} -> <<"C06">>
      [] kind \in {"listed_entity_not_viewable",
                   "listed_entity_not_borrowable"}                    -> <<"C01", "C06">>
      [] kind \in {"zero_param_count", "underscore_iter"}             -> <<"C05", "C06">>
      [] kind \in {"wev_positional"}                                  -> <<"C17">>
      [] kind \in {"hygiene_leak"}                                    -> <<"C02", "C05", "C06">>
      [] kind \in {"resolve_oob"}                                     -> <<"C03", "C01">>
      [] kind \in {"components_get_mismatch", "components_get_mut_mismatch"} -> <<"C02">>
      [] kind \in {"view_index_mismatch", "borrow_index_mismatch"}    -> <<"C02", "C06", "C01">>
      [] OTHER                                                        -> <<"TOOL">>
AnomViol(ev, at) == {V(AnomTags(ev.anom[i][1]), at, ev.anom[i][1]) : i \in DOMAIN ev.anom}

(***************************************************************************)
(* Observation of one archetype of one world after an operation.           *)
(***************************************************************************)
FreeChain(slots, head, fuel) ==
    \* positions visited from head following free links; -2 marks a broken chain
    LET RECURSIVE Walk(_, _, _)
        Walk(p, n, acc) ==
            IF p = -1 THEN acc
            ELSE IF n = 0 \/ p < 0 \/ p >= Len(slots) \/ slots[p + 1][1] # 1 THEN acc \o <<-2>>
            ELSE Walk(slots[p + 1][2], n - 1, acc \o <<p>>)
    IN Walk(head, fuel, <<>>)

RepViol(w, wid, a, x, at) ==
    LET d     == x.dump
        slots == d.slots
        dense == d.dense
        cap   == Len(slots)
        len   == Len(dense)
        chain == FreeChain(slots, d.head, cap + 1)
        freeP == {p \in 0..(cap - 1) : slots[p + 1][1] = 1}
        bad(what) == {V(<<"C12", "C01", "C10">>, at, what)}
    IN If(cap # x.cap \/ len # x.len, bad("dump: slot/dense array sizes disagree with capacity()/len()"))
    \cup If(\E i \in 1..len : LET p == dense[i][2] IN
                ~(p < cap) \/ (p < cap /\ (slots[p + 1][1] # 0 \/ slots[p + 1][2] # i - 1
                                           \/ <<slots[p + 1][3], slots[p + 1][4]>> # Gen(dense[i]))),
            bad("dump: dense handle does not agree with its slot"))
    \cup If(\E p \in 0..(cap - 1) : slots[p + 1][1] = 0 /\
                ~(slots[p + 1][2] >= 0 /\ slots[p + 1][2] < len /\ dense[slots[p + 1][2] + 1][2] = p),
            bad("dump: live slot does not point at its own dense cell"))
    \cup If(-2 \in SeqSet(chain) \/ ~NoDup(chain) \/ SeqSet(chain) # freeP \/ Len(chain) # cap - len,
            bad("dump: free list does not cover exactly the free positions"))
    \cup If(\E p \in 0..(cap - 1) : slots[p + 1][3] = 0 /\ slots[p + 1][4] = 0,
            bad("dump: a slot carries generation 0 (uninitialised)"))
    \cup If(\E i \in 1..len : dense[i][1] # IdOf(a),
            {V(<<"C14", "C15">>, at, "dump: dense handle carries a foreign archetype id")})
    \* glue: the real representation and the contract agree
    \cup If(SeqSet(dense) # LiveOn(w, a),
            {V(<<"C01", "C06", "C12">>, at, "dump: stored handles differ from the live entities of the contract")})
    \* (a free position may carry the generation of the last handle issued there -- an implementation
    \* is free to advance it when the position is reused rather than when it is released; an OLDER
    \* one cannot become fresh again by a single advance. The refill phase of every history and the
    \* freshness check on every real creation decide the equal case by behaviour.)
    \cup If(~w.wrapped[a + 1] /\ \E p \in freeP : \E t \in w.issued :
                t[1] = IdOf(a) /\ t[2] = p /\ GenLt(<<slots[p + 1][3], slots[p + 1][4]>>, Gen(t)),
            {V(<<"C08", "C01">>, at, "dump: a free position carries a generation older than a handle already issued there")})
    \cup If(Decl.events /\ (d.evl[1] # Cardinality(w.evc[a + 1]) \/ d.evl[2] # Cardinality(w.evd[a + 1])),
            {V(<<"C17">>, at, "dump: event vector lengths differ from the pending events")})

ArchObsViol(w, wid, x, keep, at) ==
    LET a    == x.a
        live == LiveOn(w, a)
        rows == SeqSet(x.snap)
        exp  == {<<t, w.alive[t].vals>> : t \in live}
        toks == {x.snap[i][1] : i \in DOMAIN x.snap}
    IN If(x.len # Cardinality(live), {V(<<"C12">>, at, "len() differs from the number of live entities")})
    \cup If(x.emp # (Cardinality(live) = 0), {V(<<"C12">>, at, "is_empty() disagrees with the live entities")})
    \cup If(x.cap < x.len, {V(<<"C12">>, at, "capacity() below len()")})
    \cup If(x.cap < w.cap[a + 1], {V(<<"C12">>, at, "capacity() decreased")})
    \cup If(a \in keep /\ x.cap # w.cap[a + 1], {V(<<"C12", "C13">>, at, "capacity() changed although there was room / the call must not reallocate / a clone must have its source's capacity")})
    \cup If(~x.snapok, {V(<<"C06", "C10">>, at, "reading the archetype panicked")})
    \cup If(x.snapok /\ Len(x.snap) # x.len, {V(<<"C06">>, at, "number of items differs from len()")})
    \cup If(x.snapok /\ toks # live, {V(<<"C06", "C01">>, at, "read path presents a different set of entities than the live ones")})
    \cup If(x.snapok /\ ~NoDup([i \in DOMAIN x.snap |-> x.snap[i][1]]), {V(<<"C06">>, at, "read path presents an entity twice")})
    \cup If(x.snapok /\ \E i \in DOMAIN x.snap : x.snap[i][1] \in live /\ x.snap[i][2] # w.alive[x.snap[i][1]].vals,
            {V(<<"C02">>, at, "read path returns values other than the entity's own latest ones")})
    \cup If(\E i \in DOMAIN x.mint : x.mint[i][2][1] # "d",
            {V(<<"C09", "C01">>, at, "to_direct rejects a live entity")})
    \cup If({x.mint[i][1] : i \in DOMAIN x.mint} # live, {V(<<"C06">>, at, "entities() differs from the live entities")})
    \cup If(\E i \in DOMAIN x.mint : x.mint[i][2][1] = "d" /\ x.mint[i][2][2][1] # IdOf(a),
            {V(<<"C14", "C15">>, at, "direct handle carries a foreign archetype id")})
    \cup If(Decl.events /\ "evc" \in DOMAIN x /\ (SeqSet(x.evc) # w.evc[a + 1] \/ ~NoDup(x.evc)),
            {V(<<"C17">>, at, "created-event list differs from the creations since the last clear")})
    \cup If(Decl.events /\ "evd" \in DOMAIN x /\ (SeqSet(x.evd) # w.evd[a + 1] \/ ~NoDup(x.evd)),
            {V(<<"C17">>, at, "destroyed-event list differs from the destructions since the last clear")})
    \cup If("dump" \in DOMAIN x /\ "av" \in DOMAIN x /\ x.av # x.dump.ver,
            {V(<<"C09">>, at, "Archetype::version() differs from the version direct handles are checked against")})
    \cup (IF "dump" \in DOMAIN x THEN RepViol(w, wid, a, x, at) ELSE {})

\* direct-handle records minted by the mint-all of this observation
MintRecs(w, x) == {[d |-> x.mint[i][2][2], t |-> x.mint[i][1], a |-> x.a, born |-> w.rm[x.a + 1], bornc |-> w.cr[x.a + 1], src |-> "mint"] :
                      i \in {j \in DOMAIN x.mint : x.mint[j][2][1] = "d" /\ x.mint[j][1] \in DOMAIN w.alive}}
\* (a listed handle that is not a live entity of the contract is reported by ArchObsViol; it gets no record)

\* C09: a token minted for two different live entities at the same time
MintClash(w, at) ==
    If(\E r1, r2 \in w.dirs : r1.d = r2.d /\ r1.t # r2.t /\ r1.born = w.rm[r1.a + 1] /\ r2.born = w.rm[r2.a + 1],
       {V(<<"C09">>, at, "one direct handle is current for two different entities")})

(***************************************************************************)
(* Probes: every lookup path applied to one key, results grouped.          *)
(* Result normal forms: <<"n">> absent, <<"p">> panic, <<"y">> contains,   *)
(* <<"i", tok>> resolve -> entities()[i], <<"d", dtok>> to_direct,         *)
(* <<"s", tok, vals>> view/borrow/find/slices, <<"f", tok, dtok>> generic  *)
(* find handing out a direct handle.                                       *)
(***************************************************************************)
DesignatesByDirect(w, d, t) == \E r \in ValidDirs(w, d) : r.t = t

GoodFor(w, r, t) ==
    CASE r[1] = "y" -> TRUE
      [] r[1] = "i" -> r[2] = t
      [] r[1] = "d" -> DesignatesByDirect(w, r[2], t)
      [] r[1] = "s" -> r[2] = t /\ t \in DOMAIN w.alive /\ r[3] = w.alive[t].vals
      [] r[1] = "f" -> r[2] = t /\ DesignatesByDirect(w, r[3], t)
      [] OTHER      -> FALSE

\* wrong values but the right entity: C02, everything else about a live key: C01
LiveTags(w, r, t, base) ==
    IF r[1] = "s" /\ r[2] = t THEN <<"C02">> ELSE base

EntProbeViol(w, pr, at) ==
    LET k == pr.k
        live  == k \in DOMAIN w.alive
        stale == ~live /\ k \in w.issued
    IN UNION {
         IF live THEN If(~GoodFor(w, g[1], k), {V(LiveTags(w, g[1], k, <<"C01">>), at, "lookup of a live handle is refused or designates something else")})
         ELSE IF stale THEN If(g[1][1] # "n", {V(<<"C01">>, at, "lookup accepts (or panics on) a stale handle")})
         ELSE If(g[1][1] \notin {"n", "p"}, {V(<<"C03">>, at, "lookup accepts a forged or foreign handle")})
         : g \in SeqSet(pr.own)}
    \cup UNION {
         If(g[1][1] # "n" /\ ~(g[1][1] = "p" /\ ~live /\ ~stale),
            {V(IF live \/ stale THEN <<"C01", "C03">> ELSE <<"C03">>, at, "archetype-level lookup accepts a handle of another archetype")})
         : g \in SeqSet(pr.oth)}

DirProbeViol(w, pr, at) ==
    LET k == pr.k
        tg == DirTargets(w, k)
        may == tg # {}
        must == MustDirs(w, k) # {}
        known == KnownDir(w, k)
        tags == IF \E r \in ValidDirs(w, k) : r.src = "iterd" THEN <<"C09", "C07">> ELSE <<"C09">>
        good(r) == \A t \in tg : GoodFor(w, r, t) \/ (r[1] = "d" /\ r[2] = k)
    IN UNION {
         IF must THEN If(~good(g[1]),
                         {V(LiveTags(w, g[1], CHOOSE t \in tg : TRUE, tags), at, "current direct handle is refused or designates another entity")})
         ELSE IF may THEN If(g[1][1] # "n" /\ ~good(g[1]),
                         {V(LiveTags(w, g[1], CHOOSE t \in tg : TRUE, tags), at, "direct handle (no removal since it was issued) designates another entity")})
         ELSE IF known THEN If(g[1][1] # "n" /\ ~(\E r \in w.dirs : r.d = k /\ w.awrapped[r.a + 1]),
                               {V(<<"C09">>, at, "direct handle accepted after a removal from its archetype")})
         ELSE If(g[1][1] \notin {"n", "p"}, {V(<<"C03">>, at, "lookup accepts a foreign direct handle")})
         : g \in SeqSet(pr.own)}
    \cup UNION {
         If(g[1][1] # "n" /\ ~(g[1][1] = "p" /\ ~known),
            {V(IF known THEN <<"C09", "C03">> ELSE <<"C03">>, at, "archetype-level lookup accepts a direct handle of another archetype")})
         : g \in SeqSet(pr.oth)}

\* measured coverage of the oracle: how many probed keys were live / stale / forged (entity keys)
\* and current / dead / foreign (direct keys) in this observation
ProbeClasses(w, o) ==
    LET ent(cls) == Cardinality({i \in DOMAIN o.pe :
            CASE cls = "live" -> o.pe[i].k \in DOMAIN w.alive
              [] cls = "stale" -> o.pe[i].k \notin DOMAIN w.alive /\ o.pe[i].k \in w.issued
              [] cls = "forged" -> o.pe[i].k \notin DOMAIN w.alive /\ o.pe[i].k \notin w.issued})
        dir(cls) == Cardinality({i \in DOMAIN o.pd :
            CASE cls = "cur" -> MustDirs(w, o.pd[i].k) # {}
              [] cls = "dead" -> DirTargets(w, o.pd[i].k) = {} /\ KnownDir(w, o.pd[i].k)
              [] cls = "foreign" -> DirTargets(w, o.pd[i].k) = {} /\ ~KnownDir(w, o.pd[i].k)})
    IN <<ent("live"), ent("stale"), ent("forged"), dir("cur"), dir("dead"), dir("foreign")>>

ProbeCount(pr) ==
    LET RECURSIVE Sum(_, _)
        Sum(s, i) == IF i > Len(s) THEN 0 ELSE s[i][2] + Sum(s, i + 1)
    IN Sum(pr.own, 1) + Sum(pr.oth, 1)

(***************************************************************************)
(* C17: world-level event iterators                                        *)
(***************************************************************************)
RECURSIVE UnionSeq(_, _)
UnionSeq(s, i) == IF i > Len(s) THEN {} ELSE s[i] \cup UnionSeq(s, i + 1)

WorldEventViol(w, o, at) ==
    IF ~Decl.events \/ "wevc" \notin DOMAIN o THEN {} ELSE
    LET chk(list, hints, sets) ==
          LET n == Len(list) IN
             If(SeqSet(list) # UnionSeq(sets, 1) \/ ~NoDup(list),
                {V(<<"C17">>, at, "world-level event iterator differs from the union over archetypes")})
        \cup If(Len(hints) # n + 1 \/ \E k \in 1..Len(hints) : hints[k] # <<n - (k - 1), n - (k - 1)>>,
                {V(<<"C17">>, at, "world-level event iterator size_hint is not exact")})
    IN chk(o.wevc, o.hintc, w.evc) \cup chk(o.wevd, o.hintd, w.evd)

(***************************************************************************)
(* Observation of one world: per-archetype checks, mint-all, probes.       *)
(* Returns the world with cap / aver / dirs brought up to date.            *)
(***************************************************************************)
\* light observation (long histories): len()/capacity()/is_empty() only
ObserveLight(w, o, keep, at) ==
    LET minted == UNION {MintRecs(w, o.ar[i]) : i \in DOMAIN o.ar}
        mkeys == {<<m.d, m.t, m.born>> : m \in minted}
    IN
    [w |-> [w EXCEPT !.cap = [i \in 1..NA |-> o.ar[i].cap],
                     !.dirs = {r \in @ : <<r.d, r.t, r.born>> \notin mkeys} \cup minted],
     pc |-> <<0, 0, 0, 0, 0, 0>>,
     v |-> UNION {LET x == o.ar[i]  n == LenOf(w, x.a) IN
                     If(x.len # n, {V(<<"C12">>, at, "len() differs from the number of live entities")})
                \cup If(x.emp # (n = 0), {V(<<"C12">>, at, "is_empty() disagrees with the live entities")})
                \cup If(x.cap < x.len \/ x.cap < w.cap[x.a + 1], {V(<<"C12">>, at, "capacity() below len() or decreased")})
                \cup If(x.a \in keep /\ x.cap # w.cap[x.a + 1], {V(<<"C12">>, at, "capacity() changed although there was room")})
                \cup If(\E j \in DOMAIN x.mint : x.mint[j][2][1] # "d", {V(<<"C09", "C01">>, at, "to_direct rejects a live entity")})
                \cup If({x.mint[j][1] : j \in DOMAIN x.mint} # LiveOn(w, x.a), {V(<<"C06", "C01">>, at, "entities() differs from the live entities")})
                  : i \in DOMAIN o.ar}]

ObserveWorld(w, o, keep, at) ==
    IF "light" \in DOMAIN o THEN ObserveLight(w, o, keep, at) ELSE
    LET archViol == UNION {ArchObsViol(w, o.w, o.ar[i], keep, at) : i \in DOMAIN o.ar}
        minted   == UNION {MintRecs(w, o.ar[i]) : i \in DOMAIN o.ar}
        \* a record re-minted now (same token, entity and removal count) supersedes its older copies
        mkeys == {<<m.d, m.t, m.born>> : m \in minted}
        w1 == [w EXCEPT !.dirs = {r \in @ : <<r.d, r.t, r.born>> \notin mkeys} \cup minted,
                        !.cap  = [i \in 1..NA |-> o.ar[i].cap],
                        !.aver = [i \in 1..NA |-> IF "dump" \in DOMAIN o.ar[i] THEN o.ar[i].dump.ver ELSE w.aver[i]]]
        probeViol == UNION {EntProbeViol(w1, o.pe[i], at) : i \in DOMAIN o.pe}
                \cup UNION {DirProbeViol(w1, o.pd[i], at) : i \in DOMAIN o.pd}
        countViol == If(\E i \in DOMAIN o.pe : ProbeCount(o.pe[i]) # o.pe[i].n, {V(<<"TOOL">>, at, "probe path count mismatch")})
                \cup If(\E i \in DOMAIN o.pd : ProbeCount(o.pd[i]) # o.pd[i].n, {V(<<"TOOL">>, at, "probe path count mismatch")})
        probed == {o.pd[i].k : i \in DOMAIN o.pd}
        \* tokens whose record has died; a token that is current again later would make the old
        \* copy of the handle accepted after a removal (C09), whatever entity it then reaches
        dead == w1.deadD \cup {r.d : r \in {x \in w1.dirs : x.born < w1.rm[x.a + 1] /\ ~w1.awrapped[x.a + 1]}}
        reborn == If(\E r \in w1.dirs : r.born = w1.rm[r.a + 1] /\ r.d \in dead /\ ~w1.awrapped[r.a + 1],
                     {V(<<"C09">>, at, "a direct handle issued before a removal is bit-identical to one that is current now: the old copy is accepted again")})
        \* forget records that are dead and no longer probed (bounded state)
        w2 == [w1 EXCEPT !.dirs = {r \in @ : r.born = w1.rm[r.a + 1] \/ r.d \in probed}, !.deadD = dead]
    IN [w |-> w2, pc |-> ProbeClasses(w1, o),
        v |-> archViol \cup probeViol \cup countViol \cup reborn \cup MintClash(w1, at) \cup WorldEventViol(w1, o, at)]

(***************************************************************************)
(* Loop bodies (ecs_iter!, ecs_iter_borrow!, ecs_iter_destroy!, finds):    *)
(* one visit = one closure invocation, folded over the contract world.     *)
(***************************************************************************)
SetVals(a, vals, cols, newp) ==
    \* overwrite the payload of the given 1-based columns; zero-sized columns have no payload
    [i \in DOMAIN vals |-> IF i \in cols /\ ColNames(a)[i] \notin ZstNames THEN <<vals[i][1], newp>> ELSE vals[i]]

VisitStep(w, q, v, visited, setp, destroyAllowed, at) ==
    LET params == QParams(q)
        a      == v.a
        arch   == DeclSeq[a + 1]
        t      == v.tok
        okArch == (a + 1) \in Matched(DeclSeq, params)
        okTok  == t \in DOMAIN w.alive /\ w.alive[t].a = a
        bseq   == IF okArch THEN BoundSeq(arch, params) ELSE <<>>
        bidx   == [i \in DOMAIN bseq |-> ColIndex(arch, bseq[i])]
        vals   == IF okTok THEN w.alive[t].vals ELSE <<>>
        okBound == okArch /\ okTok /\ Len(v.bound) = Len(bseq)
                   /\ \A i \in DOMAIN bseq : v.bound[i][1] = bseq[i] /\ v.bound[i][2] = vals[bidx[i]]
        nameBound == okArch /\ Len(v.bound) = Len(bseq) /\ \A i \in DOMAIN bseq : v.bound[i][1] = bseq[i]
        rwCols == IF okArch THEN {bidx[i] : i \in (NumRo(params) + 1)..Len(bseq)} ELSE {}
        hasD   == "d" \in DOMAIN v
        w1 == IF hasD /\ okTok
              THEN [w EXCEPT !.dirs = @ \cup {[d |-> v.d, t |-> t, a |-> a, born |-> w.rm[a + 1], bornc |-> w.cr[a + 1],
                                                 src |-> IF destroyAllowed THEN "iterd" ELSE "visit"]}] ELSE w
        w2 == IF okTok /\ setp # <<>> /\ rwCols # {}
              THEN [w1 EXCEPT !.alive[t].vals = SetVals(a, @, rwCols, setp[1])] ELSE w1
        destroys == v.dec \in {"cd", "bd"}
        \* the documented overflow panic: the removal does not happen, the loop ends by unwinding
        ovf == destroys /\ okTok /\ OverflowDue(w2, t)
        w3 == IF destroys /\ okTok /\ ~ovf THEN RemoveEnt(w2, t) ELSE w2
        viol ==
             If(~okArch, {V(<<"C05">>, at, "closure ran on an archetype the query does not match")})
        \cup If(~okTok, {V(<<"C06", "C07">>, at, "closure ran for something that is not a live entity of that archetype")})
        \cup If(t \in visited, {V(<<"C06", "C07">>, at, "closure ran twice for one entity")})
        \cup If(okArch /\ ~nameBound, {V(<<"C05">>, at, "parameter bound to a different column than the query names")})
        \cup If(okArch /\ okTok /\ nameBound /\ ~okBound, {V(<<"C02", "C06">>, at, "closure received values other than the entity's own")})
        \cup If(hasD /\ v.d[1] # IdOf(a), {V(<<"C14">>, at, "direct handle parameter carries a foreign archetype id")})
        \cup If("dnow" \in DOMAIN v /\ v.dnow[1] # "y", {V(<<"C09">>, at, "direct handle parameter is not accepted at the moment it is issued")})
        \cup If(destroys /\ ~destroyAllowed, {V(<<"TOOL">>, at, "destroy decision outside ecs_iter_destroy!")})
    IN [w |-> w3, v |-> viol, ovf |-> ovf,
        dropped |-> IF destroys /\ okTok /\ ~ovf THEN Ids(vals) ELSE {},
        zdropped |-> IF destroys /\ okTok /\ ~ovf /\ HasZst(a) THEN 1 ELSE 0]

RECURSIVE FoldVisits(_, _, _, _, _, _, _, _)
FoldVisits(w, q, visits, i, visited, setp, destroyAllowed, at) ==
    IF i > Len(visits) THEN [w |-> w, v |-> {}, dropped |-> {}, visited |-> visited, zd |-> 0, ovf |-> FALSE]
    ELSE LET s == VisitStep(w, q, visits[i], visited, setp, destroyAllowed, at)
             late == If(i > 1 /\ visits[i - 1].dec \in {"b", "bd"},
                        {V(<<"C06", "C07">>, at, "closure ran again after Break")})
                \cup If(s.ovf /\ i < Len(visits),
                        {V(<<"C10", "C07">>, at, "loop went on after a removal hit the version-overflow panic")})
             r == FoldVisits(s.w, q, visits, i + 1, visited \cup {visits[i].tok}, setp, destroyAllowed, at)
         IN [w |-> r.w, v |-> s.v \cup late \cup r.v, dropped |-> s.dropped \cup r.dropped,
             visited |-> r.visited, zd |-> s.zdropped + r.zd, ovf |-> s.ovf \/ r.ovf]
=============================================================================
