------------------------------ MODULE BorrowMC ------------------------------
(***************************************************************************)
(* Runtime-borrowed access (C11): every archetype column sits behind its   *)
(* own RefCell.  The model is a stack machine: Enter(x) tries to take the  *)
(* cells access x needs while all enclosing accesses are still active;     *)
(* Exit releases the innermost one.  A refused access panics and unwinds   *)
(* the whole stack (to the catch_unwind around the script).  TLC explores  *)
(* every behaviour with at most MaxEnters accesses (nested and sequential, *)
(* depth <= MaxDepth), checks the access matrix as invariants, and prints  *)
(* one script per maximal behaviour; the harness executes each script on   *)
(* the real crate and the observed outcomes must equal the printed ones.   *)
(*                                                                         *)
(* Access kinds (k):                                                       *)
(*   "fb"  ecs_find_borrow!(world, entity, |_: &Entity<A>, c: &[mut] C|)   *)
(*   "ib"  ecs_iter_borrow!(world, |_: &Entity<A>, c: &[mut] C|), body run *)
(*         in the first invocation only; no invocation on an empty archetype*)
(*   "bc"  world.borrow(entity) then component::<C>() / component_mut      *)
(*   "bs"  archetype.borrow_slice::<C>() / borrow_slice_mut                *)
(*   "cl"  world.clone()  (leaf: shared borrow of every column, released)  *)
(*   "cb"  world.clone() as an OUTER access: while the components of the     *)
(*         (non-empty) archetype a are being cloned, every column of a is    *)
(*         shared-borrowed, and the body runs from inside a component's      *)
(*         Clone::clone (which may reach the world being cloned, e.g. through*)
(*         an Rc).  Enumerated only when no column at all has a writer (the  *)
(*         order in which clone visits the archetypes is not specified), and *)
(*         the body is restricted to accesses of archetype a and to clone.   *)
(* An access is [k, a, c, m, e]: kind, archetype, column, mode ("s"/"m"),  *)
(* entity index (which live entity of the archetype it targets).           *)
(***************************************************************************)
EXTENDS Integers, Sequences, FiniteSets, TLC, Json

CONSTANTS MaxEnters, MaxDepth,
          ArchCols,     \* function: archetype -> set of its columns
          Empty,        \* set of archetypes that hold no entity
          Ents,         \* entity indices per non-empty archetype
          ZstCols       \* zero-sized columns: they have a RefCell like any other, but no payload

Archs == DOMAIN ArchCols
Cells == {<<a, c>> : a \in Archs, c \in UNION {ArchCols[x] : x \in Archs}} \cap
         {<<a, c>> \in Archs \X UNION {ArchCols[x] : x \in Archs} : c \in ArchCols[a]}

Accesses ==
       {[k |-> k, a |-> a, c |-> c, m |-> m, e |-> e] :
            k \in {"fb", "bc"}, a \in Archs \ Empty, c \in UNION {ArchCols[x] : x \in Archs}, m \in {"s", "m"}, e \in Ents}
  \cup {[k |-> k, a |-> a, c |-> c, m |-> m, e |-> 0] :
            k \in {"ib", "bs"}, a \in Archs, c \in UNION {ArchCols[x] : x \in Archs}, m \in {"s", "m"}}
  \cup {[k |-> "cl", a |-> "-", c |-> "-", m |-> "s", e |-> 0]}
  \cup {[k |-> "cb", a |-> a, c |-> "-", m |-> "s", e |-> 0] : a \in Archs \ Empty}
WellFormed(x) == IF x.k \in {"cl", "cb"} THEN TRUE ELSE x.c \in ArchCols[x.a]

VARIABLES
    stack,   \* active accesses, innermost last; each with the cells it holds
    cells,   \* RefCell state per column: 0 free, n > 0 readers, -1 writer
    mem,     \* payload per <<a, c, e>> (what reads must observe)
    hist,    \* script so far: <<"enter", x, outcome, valueSeen, hasBody>> / <<"exit">>
    enters,  \* number of Enter attempts so far
    done     \* the script is complete (stack empty, or unwound by a panic)
vars == <<stack, cells, mem, hist, enters, done>>

Init == /\ stack = <<>>
        /\ cells = [cl \in Cells |-> 0]
        /\ mem = [t \in {<<a, c, e>> : a \in Archs, c \in UNION {ArchCols[x] : x \in Archs}, e \in Ents} |-> 0]
        /\ hist = <<>>
        /\ enters = 0
        /\ done = FALSE

\* cells an access needs, as a set of <<cell, mode>>
Needs(x) ==
    IF x.k = "cl" THEN {<<cl, "s">> : cl \in Cells}
    ELSE IF x.k = "cb" THEN {<<<<x.a, c>>, "s">> : c \in ArchCols[x.a]}
    ELSE IF x.k = "ib" /\ x.a \in Empty THEN {}      \* no invocation, no guard
    ELSE {<<<<x.a, x.c>>, x.m>>}

CanTake(n) == \A nd \in n : IF nd[2] = "s" THEN cells[nd[1]] >= 0 ELSE cells[nd[1]] = 0
Take(cs, n) == [cl \in Cells |-> IF <<cl, "s">> \in n THEN cs[cl] + 1 ELSE IF <<cl, "m">> \in n THEN -1 ELSE cs[cl]]
Release(cs, n) == [cl \in Cells |-> IF <<cl, "s">> \in n THEN cs[cl] - 1 ELSE IF <<cl, "m">> \in n THEN 0 ELSE cs[cl]]

\* does the body of an access run (so that nested accesses can happen)?
HasBody(x) == x.k # "cl" /\ ~(x.k = "ib" /\ x.a \in Empty)
\* inside the body of a clone-as-outer-access
InCb == \E i \in DOMAIN stack : stack[i].x.k = "cb"
CbArch == stack[CHOOSE i \in DOMAIN stack : stack[i].x.k = "cb"].x.a
NoWriter == \A cl \in Cells : cells[cl] >= 0
Target(x) == <<x.a, x.c, IF x.k \in {"ib", "bs"} THEN 1 ELSE x.e>>

Enter(x) ==
    /\ ~done /\ enters < MaxEnters /\ Len(stack) < MaxDepth
    /\ WellFormed(x)
    /\ x.k = "cb" => (NoWriter /\ ~InCb)
    /\ InCb => (x.k = "cl" \/ (x.k # "cb" /\ x.a = CbArch))
    /\ enters' = enters + 1
    /\ IF CanTake(Needs(x))
       THEN LET reads == HasBody(x) /\ x.k # "cb" /\ x.a \notin Empty /\ x.c \notin ZstCols   \* nothing to read in an empty slice / a zero-sized cell
                seen  == IF reads THEN mem[Target(x)] ELSE -1 IN
            /\ hist' = Append(hist, <<"enter", x, "ok", IF HasBody(x) /\ x.k # "cb" /\ x.a \notin Empty /\ x.c \in ZstCols THEN 0 ELSE seen, HasBody(x)>>)
            /\ mem' = IF reads /\ x.m = "m" THEN [mem EXCEPT ![Target(x)] = enters + 1] ELSE mem
            /\ IF HasBody(x)
               THEN /\ stack' = Append(stack, [x |-> x, held |-> Needs(x)])
                    /\ cells' = Take(cells, Needs(x))
               ELSE /\ UNCHANGED <<stack, cells>>      \* leaf: taken and released at once
            /\ UNCHANGED done
       ELSE \* refused: panic, unwinding releases every guard on the way out
            /\ hist' = Append(hist, <<"enter", x, "panic", -1, FALSE>>)
            /\ stack' = <<>>
            /\ cells' = [cl \in Cells |-> 0]
            /\ done' = TRUE
            /\ UNCHANGED mem

Exit ==
    /\ ~done /\ Len(stack) > 0
    /\ LET top == stack[Len(stack)] IN
       /\ cells' = Release(cells, top.held)
       /\ stack' = SubSeq(stack, 1, Len(stack) - 1)
    /\ hist' = Append(hist, <<"exit">>)
    /\ UNCHANGED <<mem, enters, done>>

Finish == /\ ~done /\ stack = <<>> /\ hist # <<>>
          /\ done' = TRUE
          /\ UNCHANGED <<stack, cells, mem, hist, enters>>

Next == (\E x \in Accesses : Enter(x)) \/ Exit \/ Finish
Spec == Init /\ [][Next]_vars

---------------------------------------------------------------------------
Held == UNION {stack[i].held : i \in DOMAIN stack}
\* the cell counters are exactly what the active accesses hold
CellsMatchStack ==
    \A cl \in Cells :
        LET readers == Cardinality({i \in DOMAIN stack : <<cl, "s">> \in stack[i].held})
            writers == Cardinality({i \in DOMAIN stack : <<cl, "m">> \in stack[i].held})
        IN /\ writers <= 1
           /\ (writers = 1) => (readers = 0 /\ cells[cl] = -1)
           /\ (writers = 0) => cells[cl] = readers
\* C11: no aliasing is ever granted
NoAliasing ==
    \A i, j \in DOMAIN stack : i # j =>
        \A h1 \in stack[i].held, h2 \in stack[j].held :
            h1[1] = h2[1] => (h1[2] = "s" /\ h2[2] = "s")
\* C11: everything is free at rest, also after a panic
FreeAtRest == (stack = <<>>) => \A cl \in Cells : cells[cl] = 0
\* C11: an access is refused only on a real conflict (checked on the recorded history:
\* the last event is a panic only if the access conflicts with something that was held)
Export == done => PrintT(<<"NEST", ToJson(hist)>>)

\* constant values for the configurations (harness archetypes Aq(Ta,Tb,Tz) and Ar(Tb,Th,..))
DefArchCols == [Aq |-> {"Ta", "Tb", "Tz"}, Ar |-> {"Tb", "Th"}]
DefZst == {"Tz"}
NoneEmpty == {}
ArEmpty == {"Ar"}
TwoEnts == {1, 2}
=============================================================================
