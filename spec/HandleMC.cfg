SPECIFICATION Spec
CONSTANTS
  IdBits = 3
  PosBits = 3
  MaxGen = 3
  Declared <- ReducedDeclared
INVARIANTS Laws Export
CHECK_DEADLOCK FALSE
