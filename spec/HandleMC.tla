------------------------------ MODULE HandleMC ------------------------------
(***************************************************************************)
(* C14: handle packing and conversions (src/entity.rs, generated Select*   *)
(* tables).  A dynamic handle is <<key, gen>> with key = pos * 2^IdBits +  *)
(* id.  The laws are checked exhaustively by TLC at reduced widths; at the *)
(* real widths (24 + 8 bits, 32-bit generations) TLC enumerates boundary   *)
(* classes <<pos, id, genHi, genLo>> with the outcome of every conversion, *)
(* and the harness runs each representative (plus random members of each   *)
(* class) through the real conversions.  Keys and generations are kept as  *)
(* pairs because TLC integers are 32-bit signed.                           *)
(***************************************************************************)
EXTENDS Integers, Sequences, FiniteSets, TLC, Json

CONSTANTS IdBits, PosBits, MaxGen,     \* reduced widths for the exhaustive laws
          Declared                     \* declared archetype ids (reduced universe)

IdN == 2 ^ IdBits
PosN == 2 ^ PosBits
Pack(pos, id) == pos * IdN + id
IdOfKey(k) == k % IdN
PosOfKey(k) == k \div IdN
Keys == 0..(IdN * PosN - 1)
Gens == 0..MaxGen
Raws == Keys \X Gens

\* from_raw rejects exactly a zero generation
FromRaw(r) == IF r[2] = 0 THEN <<"err">> ELSE <<"ok", r[1], r[2]>>
Raw(h) == <<h[2], h[3]>>
TryFromAny(h, a) == IF IdOfKey(h[2]) = a THEN <<"ok", a, h[2], h[3]>> ELSE <<"err">>
IntoAny(t) == <<"ok", t[3], t[4]>>
Select(h) == IF IdOfKey(h[2]) \in Declared THEN <<"ok", IdOfKey(h[2])>> ELSE <<"err">>
Hash(h) == <<h[2], h[3]>>      \* (key << 32) | gen as a pair: injective

Handles == {FromRaw(r) : r \in {x \in Raws : x[2] # 0}}

PackUnpack == \A p \in 0..(PosN - 1), i \in 0..(IdN - 1) : IdOfKey(Pack(p, i)) = i /\ PosOfKey(Pack(p, i)) = p
RawRoundTrip == \A r \in Raws : (r[2] # 0 => (FromRaw(r)[1] = "ok" /\ Raw(FromRaw(r)) = r)) /\ (r[2] = 0 => FromRaw(r)[1] = "err")
TryFromFaithful ==
    \A h \in Handles, a \in 0..(IdN - 1) :
        LET t == TryFromAny(h, a) IN
        /\ (t[1] = "ok") <=> (IdOfKey(h[2]) = a)
        /\ t[1] = "ok" => IntoAny(t) = h
SelectTable == \A h \in Handles : (Select(h)[1] = "ok") <=> (IdOfKey(h[2]) \in Declared)
EqHash == \A h1, h2 \in Handles : (h1 = h2) <=> (Hash(h1) = Hash(h2))
DistinctEntities == \A r1, r2 \in Raws : (r1 # r2 /\ r1[2] # 0 /\ r2[2] # 0) => FromRaw(r1) # FromRaw(r2)

---------------------------------------------------------------------------
(* Boundary classes at the real widths *)
RealDeclared == {0, 3, 4, 255}          \* the harness world
RPos == {0, 1, 2, 255, 256, 65535, 65536, 16777214, 16777215}
RId == {0, 1, 2, 3, 4, 5, 254, 255}
RGen == {<<0, 0>>, <<0, 1>>, <<0, 2>>, <<1, 0>>, <<32768, 0>>, <<65535, 65534>>, <<65535, 65535>>}

VARIABLE cls
Init == cls \in [pos : RPos, id : RId, gen : RGen]
Next == UNCHANGED cls
Spec == Init /\ [][Next]_cls

Export ==
    LET ok == cls.gen # <<0, 0>> IN
    PrintT(<<"HCLASS", ToJson([pos |-> cls.pos, id |-> cls.id, gen |-> cls.gen,
        from_raw |-> ok,
        archetype_id |-> cls.id,
        try_from |-> [a \in RealDeclared |-> cls.id = a],     \* also: from_any panics iff this is FALSE
        select |-> cls.id \in RealDeclared])>>)
Laws == PackUnpack /\ RawRoundTrip /\ TryFromFaithful /\ SelectTable /\ EqHash /\ DistinctEntities
ReducedDeclared == {0, 3, 4, 7}
=============================================================================
