----------------------------- MODULE StorageMC -----------------------------
(***************************************************************************)
(* Exhaustive exploration (TLC) of one archetype storage: every history of *)
(* create / create_within_capacity / destroy by every handle of the whole  *)
(* handle universe (live, stale and forged, position = capacity included)  *)
(* / destroy by every direct handle of the universe / to_direct, from      *)
(* every initial capacity, with the storage-level forms of C01, C02, C03,  *)
(* C08, C09, C10, C12 as invariants.  With EDGES = TRUE every generated    *)
(* transition is printed as one JSON line for the transition tour that is  *)
(* replayed on the real crate (lib/tour.py).                               *)
(***************************************************************************)
EXTENDS Integers, FiniteSets, Sequences, TLC, Json

CONSTANTS MaxCap, MaxSlotVer, MaxArchVer, Wrapping, DebugAsserts,
          InitCaps,      \* set of initial capacities
          Pinned,        \* TRUE: pre-fix destroy order (reproduces defect D1)
          Edges,         \* TRUE: print state-changing transitions (for the transition tour)
          TrackDirect    \* TRUE: explore to_direct minting (ghost `directs`); FALSE for edge export

S == INSTANCE Storage

VARIABLES
    st,        \* the storage record
    issued,    \* ghost: every <<pos, gen>> ever returned by a create
    live,      \* ghost: handles of entities not yet destroyed
    rmc,       \* ghost: number of removals so far
    directs,   \* ghost: the one tracked direct handle [i, av, h (entity handle), born (rmc at minting)];
               \* tracking one at a time covers every (mint point, use point) pair without
               \* multiplying states by subsets of history
    bad        \* ghost: set of violated clause names detected on transitions (C08, C10, C12)
vars == <<st, issued, live, rmc, directs, bad>>

Pos == 0..(MaxCap - 1)
HandleU == (0..MaxCap) \X (1..MaxSlotVer)      \* position = MaxCap: out of bounds
DirectU == (0..MaxCap) \X (1..MaxArchVer)

Init == /\ \E c \in InitCaps : st = S!New(c)
        /\ issued = {}
        /\ live = {}
        /\ rmc = 0
        /\ directs = {}
        /\ bad = {}

Proj(s) == [cap |-> s.cap, len |-> s.len, aver |-> s.aver, head |-> s.head,
            slots |-> [p \in 1..s.cap |-> <<IF s.free[p - 1] THEN 1 ELSE 0, s.idx[p - 1], s.ver[p - 1]>>],
            dense |-> [i \in 1..s.len |-> <<s.dpos[i - 1], s.dver[i - 1]>>]]

Edge(op, arg, out, s2) ==
    IF Edges THEN PrintT(<<"EDGE", ToJson([from |-> Proj(st), op |-> op, arg |-> arg, out |-> out, to |-> Proj(s2)])>>)
    ELSE TRUE

Create ==
    LET outc == S!PushOutcome(st)
        s2   == S!Push(st)
        h    == <<S!NextPos(st), S!NextGen(st)>>
    IN /\ st' = s2
       /\ IF outc = "ok"
          THEN /\ issued' = issued \cup {h}
               /\ live' = live \cup {h}
               /\ bad' = bad \cup (IF h \in issued /\ ~Wrapping THEN {"C08_reissued"} ELSE {})
                             \cup (IF s2.cap < st.cap \/ (st.len < st.cap /\ s2.cap # st.cap) THEN {"C12_capacity"} ELSE {})
                             \cup (IF s2.len # st.len + 1 THEN {"C12_len"} ELSE {})
          ELSE /\ UNCHANGED <<issued, live>>
               /\ bad' = bad \cup (IF st.len < MaxCap THEN {"C12_panic_below_limit"} ELSE {})
                             \cup (IF s2 # st THEN {"C10_panic_changed_state"} ELSE {})
       /\ UNCHANGED <<rmc, directs>>
       /\ Edge("create", <<>>, IF outc = "ok" THEN <<"ok", h[1], h[2]>> ELSE <<"panic">>, s2)

CreateWithin ==
    /\ IF S!WithinOk(st)
       THEN LET h == <<S!NextPos(st), S!NextGen(st)>>
                s2 == S!ForceCreate(st)
            IN /\ st' = s2
               /\ issued' = issued \cup {h}
               /\ live' = live \cup {h}
               /\ bad' = bad \cup (IF h \in issued /\ ~Wrapping THEN {"C08_reissued"} ELSE {})
                             \cup (IF s2.cap # st.cap THEN {"C12_capacity"} ELSE {})
               /\ Edge("create_within", <<>>, <<"ok", h[1], h[2]>>, s2)
       ELSE /\ UNCHANGED <<st, issued, live>>
            /\ bad' = bad \cup (IF st.len < st.cap THEN {"C12_within_refused"} ELSE {})
            /\ Edge("create_within", <<>>, <<"err">>, st)
    /\ UNCHANGED <<rmc, directs>>

\* destroy by an entity handle (any value of the universe) or a direct handle
DestroyAt(op, arg, r, hkey) ==
    \* r: resolution result (-1 none, -2 debug panic, else dense index)
    IF r = -1 THEN UNCHANGED <<st, issued, live, rmc, directs, bad>>      \* misses are covered by probes
    ELSE IF r = -2 THEN UNCHANGED <<st, issued, live, rmc, directs, bad>>
    ELSE LET p == st.dpos[r]
             h == <<p, st.dver[r]>>
         IN IF S!DestroyPanics(st, p)
            THEN /\ st' = IF Pinned THEN S!ForceDestroyPinnedPanic(st, p, r) ELSE st
                 /\ UNCHANGED <<issued, live, rmc, directs, bad>>
                 /\ Edge(op, arg, <<"panic_overflow">>, st')
            ELSE LET s2 == S!ForceDestroy(st, p, r) IN
                 /\ st' = s2
                 /\ live' = live \ {h}
                 /\ rmc' = rmc + 1
                 /\ UNCHANGED <<issued, directs>>
                 /\ bad' = bad \cup (IF s2.cap # st.cap THEN {"C12_capacity"} ELSE {})
                 /\ Edge(op, arg, <<"some", st.val[r]>>, s2)

Destroy == \E h \in HandleU : DestroyAt("destroy", <<h[1], h[2]>>, S!ResolveEntity(st, h[1], h[2]), h)
DestroyDirect == \E d \in DirectU : DestroyAt("destroy_direct", <<d[1], d[2]>>, S!ResolveDirect(st, d[1], d[2]), d)

\* to_direct(h): mint a direct handle for a handle of the universe
ToDirect ==
    /\ TrackDirect
    /\ \E h \in HandleU :
        LET r == S!ResolveEntity(st, h[1], h[2]) IN
        /\ r >= 0
        /\ directs' = {[i |-> r, av |-> st.aver, h |-> <<st.dpos[r], st.dver[r]>>, born |-> rmc]}
        /\ UNCHANGED <<st, issued, live, rmc, bad>>

Next == Create \/ CreateWithin \/ Destroy \/ DestroyDirect \/ ToDirect

Spec == Init /\ [][Next]_vars

---------------------------------------------------------------------------
(* Free chain: visits exactly the free positions below cap, each once *)
ChainSeq(s) ==
    LET RECURSIVE Walk(_, _, _)
        Walk(p, n, acc) == IF p = S!END THEN acc
                           ELSE IF n = 0 \/ p < 0 \/ p >= s.cap \/ ~s.free[p] THEN acc \o <<-2>>
                           ELSE Walk(s.idx[p], n - 1, acc \o <<p>>)
    IN Walk(s.head, s.cap + 1, <<>>)
SeqSet(q) == {q[i] : i \in DOMAIN q}
ChainOk(s) == LET c == ChainSeq(s) IN
    /\ -2 \notin SeqSet(c)
    /\ Cardinality(SeqSet(c)) = Len(c)
    /\ SeqSet(c) = {p \in Pos : p < s.cap /\ s.free[p]}
    /\ Len(c) = s.cap - s.len

RepInv == S!RepLocal(st) /\ ChainOk(st)

\* ghost agreement: the dense handles are exactly the live handles
GhostOk == {<<st.dpos[i], st.dver[i]>> : i \in {j \in Pos : j < st.len}} = live

\* C01 + C03: over the WHOLE universe, a handle resolves iff it is live, to its own cell
C01_ResolveIffLive ==
    \A h \in HandleU :
        LET r == S!ResolveEntity(st, h[1], h[2]) IN
        /\ (r >= 0) <=> (h \in live)
        /\ r >= 0 => (r < st.len /\ st.dpos[r] = h[1] /\ st.dver[r] = h[2])
        /\ (r = -2) => (DebugAsserts /\ h \notin issued)     \* only forged values may panic
\* C02: the cell reached holds the value created for that handle
C02_OwnValue ==
    \A h \in live : LET r == S!ResolveEntity(st, h[1], h[2]) IN r >= 0 => st.val[r] = S!Code(h[1], h[2])
\* C03: direct keys of the whole universe never reach outside the live prefix
C03_DirectInBounds ==
    \A d \in DirectU : LET r == S!ResolveDirect(st, d[1], d[2]) IN r >= 0 => r < st.len
\* C08 (latent form): a free position carries a generation newer than everything issued there
C08_FreeIsNewer ==
    Wrapping \/ \A p \in Pos : (p < st.cap /\ st.free[p]) => \A h \in issued : h[1] = p => h[2] < st.ver[p]
\* C09: minted direct handles designate their entity while current, and die with any removal
C09_Direct ==
    \A r \in directs :
        LET x == S!ResolveDirect(st, r.i, r.av) IN
        /\ (r.born = rmc) => (x >= 0 /\ <<st.dpos[x], st.dver[x]>> = r.h)
        /\ (r.born < rmc /\ ~Wrapping) => x = -1
\* C12: len is the number of live entities
C12_Len == st.len = Cardinality(live) /\ st.len <= st.cap
NoBad == bad = {}

\* Under wrapping_version the history ghosts are unbounded (and reuse of ancient handles is the
\* documented exception): that configuration checks only the structural and in-bounds
\* invariants, which depend on `st` alone, with states identified by `st`.
StView == st
\* index safety under wrapping: whatever resolves, resolves inside the live prefix
C03_EntityInBounds ==
    \A h \in HandleU : LET r == S!ResolveEntity(st, h[1], h[2]) IN r >= 0 => (r < st.len /\ st.dpos[r] = h[1])

---------------------------------------------------------------------------
(* Refinement: the slot map implements the abstract entity map (AbsMap.tla).  The live set is
   READ OUT OF THE STORAGE (dense handle column), not taken from the ghost `live`; `issued`,
   `rmc` and the tracked direct record are history and map to themselves. *)
DenseSet == {<<st.dpos[i], st.dver[i]>> : i \in {j \in Pos : j < st.len}}
A == INSTANCE AbsMap WITH Tokens <- HandleU, Reuse <- Wrapping,
                          aLive <- DenseSet, aIssued <- issued, aRm <- rmc,
                          aDir <- {[h |-> r.h, born |-> r.born] : r \in directs}
Refines == A!ASpec
\* the observable function of the abstract machine, as the code computes it
AbsLookupAgrees == \A h \in HandleU : (S!ResolveEntity(st, h[1], h[2]) >= 0) <=> (h \in DenseSet)
=============================================================================
