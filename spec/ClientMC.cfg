SPECIFICATION Spec
INVARIANTS TwinCompiles Export
CHECK_DEADLOCK FALSE
