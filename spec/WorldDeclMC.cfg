SPECIFICATION Spec
CONSTANTS
  Preds <- TwoPreds
  ArchIds <- ArchIdChoices
  CompIds <- CompIdChoices
  PredSets <- ThreePredSets
INVARIANTS Export
CHECK_DEADLOCK FALSE
