----------------------------- MODULE AutoTraitMC -----------------------------
(***************************************************************************)
(* C18: the auto-trait envelope.  A world (and each archetype) owns its    *)
(* components behind RefCell columns: it is Send exactly when every        *)
(* component is Send and it is never Sync.  Handles are plain data with a  *)
(* PhantomData<fn() -> A>: Copy + Send + Sync whatever the components are. *)
(* TLC enumerates (component class, subject, trait) with the verdict; each *)
(* becomes one `fn assert_<trait><T: Trait>()` client program for rustc.   *)
(* Component classes separate Send from Sync: u32 (both), Cell<u32> (Send  *)
(* only), MutexGuard<'static, u32> (Sync only), Rc<u32> (neither).         *)
(***************************************************************************)
EXTENDS TLC, Json

Classes == {[name |-> "both",     send |-> TRUE,  sync |-> TRUE],
            [name |-> "sendonly", send |-> TRUE,  sync |-> FALSE],
            [name |-> "synconly", send |-> FALSE, sync |-> TRUE],
            [name |-> "neither",  send |-> FALSE, sync |-> FALSE]}
Subjects == {"world", "archetype", "entity", "direct"}
\* Lenders: objects that lend references to the components. For them only the FORBIDDEN direction is
\* stated (what would let safe code move or share a component against its own Send / Sync); whether the
\* permitted direction is implemented is the library's choice.
Lenders == {"iter", "itermut", "view", "borrowobj"}
Traits == {"Send", "Sync", "Copy"}

VARIABLE q
Init == q \in [c : Classes, s : Subjects \cup Lenders, t : Traits]
Next == UNCHANGED q
Spec == Init /\ [][Next]_q

Holds(x) ==
    IF x.s \in {"entity", "direct"} THEN TRUE                 \* handles: always Copy + Send + Sync
    ELSE CASE x.t = "Send" -> x.c.send                       \* owner of the components
           [] x.t = "Sync" -> FALSE                          \* RefCell columns
           [] x.t = "Copy" -> FALSE
\* must the assertion be rejected?  iter lends &C, itermut and view lend &mut C, a Borrow object
\* shares the world's RefCells (so it may cross threads under no circumstances)
Forbidden(x) ==
    CASE x.t = "Copy" -> FALSE
      [] x.s = "iter"      -> ~x.c.sync
      [] x.s \in {"itermut", "view"} -> IF x.t = "Send" THEN ~x.c.send ELSE ~x.c.sync
      [] x.s = "borrowobj" -> TRUE
      [] OTHER -> FALSE
Must(x) == IF x.s \in Lenders THEN (IF Forbidden(x) THEN "reject" ELSE "any")
           ELSE (IF Holds(x) THEN "compile" ELSE "reject")
Export == PrintT(<<"AUTOTRAIT", ToJson([class |-> q.c.name, subject |-> q.s, trait |-> q.t,
                    holds |-> IF q.s \in Lenders THEN FALSE ELSE Holds(q), must |-> Must(q)])>>)
=============================================================================
