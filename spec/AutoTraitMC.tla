----------------------------- MODULE AutoTraitMC -----------------------------
(***************************************************************************)
(* C18: the auto-trait envelope.  A world (and each archetype) owns its    *)
(* components behind RefCell columns: it is Send exactly when every        *)
(* component is Send and it is never Sync.  Handles are plain data with a  *)
(* PhantomData<fn() -> A>: Copy + Send + Sync whatever the components are. *)
(* TLC enumerates (component class, subject, trait) with the verdict; each *)
(* becomes one `fn assert_<trait><T: Trait>()` client program for rustc.   *)
(* Component classes separate Send from Sync: u32 (both), Cell<u32> (Send  *)
(* only), MutexGuard<'static, u32> (Sync only), Rc<u32> (neither).         *)
(***************************************************************************)
EXTENDS TLC, Json

Classes == {[name |-> "both",     send |-> TRUE,  sync |-> TRUE],
            [name |-> "sendonly", send |-> TRUE,  sync |-> FALSE],
            [name |-> "synconly", send |-> FALSE, sync |-> TRUE],
            [name |-> "neither",  send |-> FALSE, sync |-> FALSE]}
Subjects == {"world", "archetype", "entity", "direct"}
Traits == {"Send", "Sync", "Copy"}

VARIABLE q
Init == q \in [c : Classes, s : Subjects, t : Traits]
Next == UNCHANGED q
Spec == Init /\ [][Next]_q

Holds(x) ==
    IF x.s \in {"entity", "direct"} THEN TRUE                 \* handles: always Copy + Send + Sync
    ELSE CASE x.t = "Send" -> x.c.send                       \* owner of the components
           [] x.t = "Sync" -> FALSE                          \* RefCell columns
           [] x.t = "Copy" -> FALSE
Export == PrintT(<<"AUTOTRAIT", ToJson([class |-> q.c.name, subject |-> q.s, trait |-> q.t, holds |-> Holds(q)])>>)
=============================================================================
