SPECIFICATION ASpec
CONSTANTS
  Tokens = {1, 2, 3, 4}
  Reuse = FALSE
INVARIANTS ATypeOk ADirOk
CONSTRAINT Bound
CHECK_DEADLOCK FALSE
