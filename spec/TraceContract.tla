--------------------------- MODULE TraceContract ---------------------------
(***************************************************************************)
(* Trace validation of executions recorded from the real gecs crate        *)
(* against the Contract.  One TLC step per recorded event; the logged      *)
(* arguments and results resolve all nondeterminism, so the search is one  *)
(* linear path.  Monitor form: every precondition of the contract is       *)
(* evaluated into the cumulative ghost set `viol` (tagged with property    *)
(* ids) instead of disabling the step, so one run reports every violated   *)
(* clause of the whole trace and never stops early.  Only a malformed      *)
(* event stops the run short (tool error).                                 *)
(***************************************************************************)
EXTENDS Integers, Sequences, FiniteSets, TLC, Json, IOUtils

Rec == ndJsonDeserialize(IOEnv.TRACE)

C == INSTANCE Contract WITH Decl <- Rec[1]

VARIABLES l, st, viol, pcs   \* pcs: cumulative probe-class counters (measured oracle coverage)
vars == <<l, st, viol, pcs>>

EmptySt == [W |-> <<>>, dead |-> {}, leaked |-> {}, zleak |-> 0]
ZeroPc == <<0, 0, 0, 0, 0, 0>>
AddPc(a, b) == [i \in 1..6 |-> a[i] + b[i]]

V(tags, at, what) == C!V(tags, at, what)
If(c, s) == C!If(c, s)
SeqSet(s) == C!SeqSet(s)

\* observation of all worlds after an operation; `keep` = archetypes (per world) whose
\* capacity the operation must not change
ObserveAll(W, ev, keepW, keepA, at) ==
    LET RECURSIVE Go(_, _)
        Go(i, acc) ==
            IF i > Len(ev.obs) THEN acc
            ELSE LET o == ev.obs[i] IN
                 IF o.w \notin DOMAIN acc.W
                 THEN Go(i + 1, [acc EXCEPT !.v = @ \cup {V(<<"TOOL">>, at, "observation of a world the contract does not have")}])
                 ELSE LET r == C!ObserveWorld(acc.W[o.w], o, IF o.w = keepW THEN keepA ELSE {}, at)
                          \* a violation showing up in a world the operation did not touch is (also) a
                          \* violation of clone independence
                          rv == IF "w" \in DOMAIN ev /\ o.w # ev.w /\ ~("dst" \in DOMAIN ev /\ o.w = ev.dst)
                                THEN {[x EXCEPT !.p = @ \o <<"C13">>] : x \in r.v} ELSE r.v
                      IN Go(i + 1, [W |-> [acc.W EXCEPT ![o.w] = r.w], v |-> acc.v \cup rv, pc |-> AddPc(acc.pc, r.pc)])
        observed == {ev.obs[i].w : i \in DOMAIN ev.obs}
    IN LET r == Go(1, [W |-> W, v |-> {}, pc |-> ZeroPc]) IN
       [W |-> r.W, pc |-> r.pc,
        v |-> r.v \cup If(observed # DOMAIN W, {V(<<"TOOL">>, at, "set of observed worlds differs from the contract's worlds")})]

ZExpected(W) ==
    LET RECURSIVE Sum(_)
        Sum(S) == IF S = {} THEN 0 ELSE LET x == CHOOSE x \in S : TRUE IN C!ZCount(W[x]) + Sum(S \ {x})
    IN Sum(DOMAIN W)

\* Common tail of every operation: registry accounting, anomalies, observation.
Finish(s0, W1, ev, expDrops, exact, keepW, keepA, extraViol, newLeaked, newZleak, at) ==
    LET ob == ObserveAll(W1, ev, keepW, keepA, at)
        ze == ZExpected(W1)
        zl == s0.zleak + newZleak
    IN [pc |-> ob.pc,
        st |-> [W |-> ob.W, dead |-> s0.dead \cup SeqSet(ev.drops),
                leaked |-> s0.leaked \cup newLeaked, zleak |-> zl],
        v  |-> extraViol \cup ob.v \cup C!DropViol(s0, ev, expDrops, exact, at) \cup C!AnomViol(ev, at)
               \cup If(ev.zl < ze \/ ev.zl > ze + zl,
                       {V(<<"C04">>, at, "number of live zero-sized component values differs from the entities holding one")})]

KeepAll == 0..63

---------------------------------------------------------------------------
StepInit(s, ev, at) ==
    IF ev.out[1] = "p"
    THEN Finish(s, s.W, ev, {}, TRUE, -1, {},
                If(\A i \in DOMAIN ev.caps : ev.caps[i] <= C!RealMaxCap,
                   {V(<<"C12">>, at, "with_capacity panicked below the 2^24 limit")}), {}, 0, at)
    ELSE LET caps == [i \in 1..C!NA |-> ev.caps[i]]
             W1 == (ev.w :> C!NewWorld(caps)) @@ s.W
             o == CHOOSE o \in SeqSet(ev.obs) : o.w = ev.w
         IN Finish(s, W1, ev, {}, TRUE, -1, {},
                   If(\E i \in DOMAIN ev.caps : ev.caps[i] > C!RealMaxCap,
                      {V(<<"C12">>, at, "with_capacity beyond the 2^24 limit did not panic")})
                   \cup If(\E i \in 1..C!NA : o.ar[i].cap < ev.caps[i],
                      {V(<<"C12">>, at, "with_capacity(n) yields a capacity below n")}), {}, 0, at)

StepCreate(s, ev, within, at) ==
    LET w   == s.W[ev.w]
        a   == ev.a
        len == C!LenOf(w, a)
        cap == w.cap[a + 1]
        tag == ev.out[1]
    IN
    CASE tag # "p" /\ "cfault" \in DOMAIN ev /\ ev.cfault ->
           Finish(s, s.W, ev, {}, TRUE, ev.w, {}, {V(<<"TOOL">>, at, "a conversion fault fired but create did not panic")}, {}, 0, at)
      [] tag = "ok" ->
           LET t == ev.out[2]
               reissued == t \in w.issued
               older == \E u \in w.issued : u[1] = t[1] /\ u[2] = t[2] /\ C!GenLt(C!Gen(t), C!Gen(u))
               wrapNow == Rec[1].wrapping /\ (older \/ reissued)
               w1 == [w EXCEPT !.alive = (t :> [a |-> a, vals |-> ev.vals]) @@ @,
                               !.issued = @ \cup {t},
                               !.evc[a + 1] = @ \cup {t},
                               !.cr[a + 1] = @ + 1,
                               !.wrapped[a + 1] = @ \/ wrapNow]
               viol1 ==
                    If(t[1] # C!IdOf(a), {V(<<"C14", "C15">>, at, "created handle reports a foreign archetype id")})
               \cup If(reissued /\ (~Rec[1].wrapping \/ t \in DOMAIN w.alive),
                       {V(<<"C08">>, at, "create returned a handle that was already issued in this world")})
               \cup If(within /\ len >= cap, {V(<<"C12">>, at, "create_within_capacity succeeded although len() = capacity()")})
               \cup If(len >= C!RealMaxCap, {V(<<"C12">>, at, "create succeeded beyond the 2^24 limit")})
           IN Finish(s, [s.W EXCEPT ![ev.w] = w1], ev, {}, TRUE, ev.w,
                     IF within \/ len < cap THEN {a} ELSE {}, viol1, {}, 0, at)
      [] tag = "err" ->
           Finish(s, s.W, ev, C!Ids(ev.vals), TRUE, ev.w, {a},
                     If(~within, {V(<<"TOOL">>, at, "err from create")})
                \cup If(len < cap, {V(<<"C12">>, at, "create_within_capacity refused although len() < capacity()")})
                \cup If(ev.out[2] # ev.vals, {V(<<"C12", "C04">>, at, "create_within_capacity did not hand back its argument")}),
                  {}, 0, at)
      [] tag = "p" ->
           \* the documented capacity panic, or a panic injected into the user's own conversion into
           \* the Components struct (cfault): nothing may have changed, the argument is dropped
           LET cfault == "cfault" \in DOMAIN ev /\ ev.cfault IN
           Finish(s, s.W, ev, C!Ids(ev.vals), FALSE, ev.w, {a},
                  If(~cfault /\ (within \/ len < C!RealMaxCap), {V(<<"C12", "C10">>, at, "create panicked below the 2^24 limit")}),
                  C!Ids(ev.vals) \ SeqSet(ev.drops), 1, at)

\* destroy by any key kind, world or archetype level
StepDestroy(s, ev, at) ==
    LET w   == s.W[ev.w]
        ky  == ev.key
        tag == ev.out[1]
        acc == C!Accepted(w, ky)          \* the key may be accepted
        must == C!MustAccept(w, ky)       \* the key must be accepted
        t   == IF acc THEN C!Target(w, ky) ELSE <<>>
        vals == IF acc THEN w.alive[t].vals ELSE <<>>
        removed == tag \in {"unit", "vals"} \/ (tag = "p" /\ ev.fault /\ acc /\ ~C!OverflowDue(w, t)
                                                 /\ SeqSet(ev.drops) # {})
        w1 == IF acc /\ removed THEN C!RemoveEnt(w, t) ELSE w
        viol1 ==
             If(tag = "skip", {})
        \cup If(tag \in {"unit", "vals"} /\ ~acc, {V(C!WrongAccept(w, ky), at, "destroy accepted a key that must be rejected")})
        \cup If(tag = "n" /\ must, {V(C!WrongReject(w, ky), at, "destroy rejected a key that must be accepted")})
        \cup If(tag = "vals" /\ acc /\ ev.out[2] # vals, {V(<<"C02">>, at, "destroy returned values other than the entity's own")})
        \cup If(tag = "p" /\ ~(C!Foreign(w, ky) \/ (acc /\ C!OverflowDue(w, t)) \/ (acc /\ ev.fault)),
                {V(<<"C10", "C01">>, at, "destroy panicked without a documented reason")})
        \cup If(tag \in {"unit", "vals"} /\ acc /\ C!OverflowDue(w, t),
                {V(IF w.aver[w.alive[t].a + 1] = C!MaxGen THEN <<"C09", "C08", "C10">> ELSE <<"C08", "C10">>, at,
                   "removal at the version limit did not panic although wrapping is not enabled")})
        \cup If(tag = "p" /\ acc /\ C!OverflowDue(w, t) /\ ~ev.fault /\ SeqSet(ev.drops) # {},
                {V(<<"C10">>, at, "destroy released values although it panicked on version overflow")})
    IN Finish(s, [s.W EXCEPT ![ev.w] = w1], ev, IF acc /\ removed THEN C!Ids(vals) ELSE {},
              TRUE, ev.w, {}, viol1, {}, 0, at)

StepToDirect(s, ev, at) ==
    LET w   == s.W[ev.w]
        ky  == ev.key
        tag == ev.out[1]
        acc == C!Accepted(w, ky)
        must == C!MustAccept(w, ky)
        t   == IF acc THEN C!Target(w, ky) ELSE <<>>
        w1 == IF acc /\ tag = "d"
              THEN [w EXCEPT !.dirs = @ \cup {[d |-> ev.out[2], t |-> t, a |-> w.alive[t].a, born |-> w.rm[w.alive[t].a + 1], bornc |-> w.cr[w.alive[t].a + 1], src |-> "op"]}]
              ELSE w
        viol1 ==
             If(tag = "d" /\ ~acc, {V(C!WrongAccept(w, ky), at, "to_direct accepted a key that must be rejected")})
        \cup If(tag = "n" /\ must, {V(C!WrongReject(w, ky), at, "to_direct rejected a key that must be accepted")})
        \cup If(tag = "d" /\ acc /\ C!IsDirKey(ky) /\ ev.out[2] # ky.k, {V(<<"C09">>, at, "to_direct of a direct key returned a different handle")})
        \cup If(tag = "p" /\ ~C!Foreign(w, ky), {V(<<"C10", "C01">>, at, "to_direct panicked on a handle of this world")})
    IN Finish(s, [s.W EXCEPT ![ev.w] = w1], ev, {}, TRUE, ev.w, {}, viol1, {}, 0, at)

StepWrite(s, ev, at) ==
    LET w   == s.W[ev.w]
        ky  == ev.key
        tag == ev.out[1]
        acc == C!Accepted(w, ky)
        must == C!MustAccept(w, ky)
        t   == IF acc THEN C!Target(w, ky) ELSE <<>>
        w1 == IF acc /\ tag = "ok"
              THEN [w EXCEPT !.alive[t].vals = C!SetVals(w.alive[t].a, @, {ev.col + 1}, ev.p)] ELSE w
        viol1 ==
             If(tag = "ok" /\ ~acc, {V(C!WrongAccept(w, ky), at, "mutable access accepted a key that must be rejected")})
        \cup If(tag = "n" /\ must, {V(C!WrongReject(w, ky), at, "mutable access rejected a key that must be accepted")})
        \cup If(tag = "p" /\ ~C!Foreign(w, ky), {V(<<"C10", "C01">>, at, "mutable access panicked on a handle of this world")})
    IN Finish(s, [s.W EXCEPT ![ev.w] = w1], ev, {}, TRUE, ev.w, {}, viol1, {}, 0, at)

StepLoop(s, ev, at) ==
    LET w    == s.W[ev.w]
        q    == ev.q
        dest == ev.mac = "iter_destroy"
        matched == C!Matched(C!DeclSeq, C!QParams(q))
        atStart == {t \in DOMAIN w.alive : (w.alive[t].a + 1) \in matched}
        f    == C!FoldVisits(w, q, ev.visits, 1, {}, ev.set, dest, at)
        broke == Len(ev.visits) > 0 /\ ev.visits[Len(ev.visits)].dec \in {"b", "bd"}
        tag  == ev.out[1]
        viol1 ==
             If(tag = "done" /\ ~broke /\ ~f.ovf /\ f.visited # atStart,
                {V(IF dest THEN <<"C07">> ELSE <<"C06">>, at, "loop without Break did not visit exactly the matching entities alive at its start")})
        \cup If(~(f.visited \subseteq atStart),
                {V(IF dest THEN <<"C07", "C05">> ELSE <<"C06", "C05">>, at, "loop visited an entity that is not a matching entity alive at its start")})
        \cup If(tag = "p" /\ ~ev.fault /\ ~f.ovf, {V(IF dest THEN <<"C10", "C07">> ELSE <<"C10", "C06">>, at, "query loop panicked without an injected fault")})
        \cup If(tag # "p" /\ f.ovf, {V(<<"C08", "C10">>, at, "removal at the version limit neither panicked nor is wrapping enabled")})
    IN Finish(s, [s.W EXCEPT ![ev.w] = f.w], ev, f.dropped, TRUE, ev.w, {}, viol1 \cup f.v, {}, 0, at)

StepFind(s, ev, at) ==
    LET w    == s.W[ev.w]
        ky   == ev.key
        q    == ev.q
        acc  == C!Accepted(w, ky)
        t    == IF acc THEN C!Target(w, ky) ELSE <<>>
        matched == C!Matched(C!DeclSeq, C!QParams(q))
        runs == acc /\ (w.alive[t].a + 1) \in matched             \* the closure may run
        mustRun == C!MustAccept(w, ky) /\ runs                     \* ... and must run
        f    == C!FoldVisits(w, q, ev.visits, 1, {}, ev.set, FALSE, at)
        tag  == ev.out[1]
        n    == Len(ev.visits)
        viol1 ==
             If(tag = "some" /\ ~acc, {V(C!WrongAccept(w, ky), at, "find accepted a key that must be rejected")})
        \cup If(tag = "some" /\ acc /\ ~runs, {V(<<"C05">>, at, "find ran its closure on an entity of an unmatched archetype")})
        \cup If(tag = "n" /\ mustRun, {V(C!WrongReject(w, ky) \o <<"C05">>, at, "find returned None for a live entity of a matched archetype")})
        \cup If((tag = "some" /\ n # 1) \/ (tag = "n" /\ n # 0), {V(<<"C05", "C06">>, at, "find closure did not run exactly once iff found")})
        \cup If(n = 1 /\ acc /\ ev.visits[1].tok # t, {V(<<"C01", "C09">>, at, "find reached a different entity than the key designates")})
        \cup If(tag = "p" /\ ~(C!Foreign(w, ky) \/ (ev.fault /\ runs)), {V(<<"C10">>, at, "find panicked without an injected fault")})
    IN Finish(s, [s.W EXCEPT ![ev.w] = f.w], ev, {}, TRUE, ev.w, {}, viol1 \cup f.v, {}, 0, at)

StepClone0(s, ev, at) ==
    LET w    == s.W[ev.w]
        from == {ev.clones[i][1] : i \in DOMAIN ev.clones}
        to   == {ev.clones[i][2] : i \in DOMAIN ev.clones}
        map  == [x \in from |-> (CHOOSE i \in DOMAIN ev.clones : ev.clones[i][1] = x)]
        newId(x) == IF x = 0 THEN 0 ELSE IF x \in from THEN ev.clones[map[x]][2] ELSE -x
        w1 == [w EXCEPT !.alive = [t \in DOMAIN w.alive |->
                    [a |-> w.alive[t].a,
                     vals |-> [i \in DOMAIN w.alive[t].vals |-> <<newId(w.alive[t].vals[i][1]), w.alive[t].vals[i][2]>>]]]]
        zc == C!ZCount(w)
        into == "into" \in DOMAIN ev /\ ev.into
        oldOwned == IF into /\ ev.dst \in DOMAIN s.W THEN C!OwnedIds(s.W[ev.dst]) ELSE {}
    IN IF ev.out[1] = "ok"
       THEN Finish(s, (ev.dst :> w1) @@ s.W, ev, oldOwned, TRUE, ev.dst, IF into THEN {} ELSE KeepAll,
                   If(from # C!OwnedIds(w) \/ Len(ev.clones) # Cardinality(from) \/ Cardinality(to) # Len(ev.clones),
                      {V(<<"C04", "C13">>, at, "clone did not clone each live component exactly once")})
              \cup If(ev.zc # zc, {V(<<"C04", "C13">>, at, "clone did not clone each zero-sized component exactly once")})
              \cup If(~into /\ ev.dst \in DOMAIN s.W, {V(<<"TOOL">>, at, "clone into an existing world slot")})
              \cup If(into /\ \E i \in DOMAIN ev.obs : ev.obs[i].w = ev.dst /\ \E j \in DOMAIN ev.obs[i].ar : ev.obs[i].ar[j].cap < w.cap[j],
                      {V(<<"C13", "C12">>, at, "clone_from left a capacity below the source's")}),
                   {}, 0, at)
       ELSE Finish(s, s.W, ev, to, FALSE, -1, {},
                   If(~ev.fault, {V(<<"C10", "C11">>, at, "clone panicked without an injected fault")})
              \cup If(~(from \subseteq C!OwnedIds(w)), {V(<<"C04">>, at, "clone cloned something the world does not own")}),
                   to \ SeqSet(ev.drops), ev.zc, at)

StepClone(s, ev, at) ==
    LET r == StepClone0(s, ev, at) IN
    [st |-> r.st, v |-> {[x EXCEPT !.p = IF "TOOL" \in SeqSet(@) THEN @ ELSE @ \o <<"C13">>] : x \in r.v}]

\* dst.<archetype a>.clone_from(&src.<archetype a>): on success dst's archetype a is a copy of src's
\* (tokens, values re-identified through the clone pairs, capacity, counters, direct records,
\* pending events); its previous entities are gone and their values dropped.  After a panic (injected
\* Clone / Drop fault) the archetype must be observed either unchanged or empty (C10), everything
\* dropped or leaked exactly once.
StepArchCloneFrom(s, ev, at) ==
    LET ws   == s.W[ev.w]
        wd   == s.W[ev.dst]
        a    == ev.a
        from == {ev.clones[i][1] : i \in DOMAIN ev.clones}
        to   == {ev.clones[i][2] : i \in DOMAIN ev.clones}
        map  == [x \in from |-> (CHOOSE i \in DOMAIN ev.clones : ev.clones[i][1] = x)]
        newId(x) == IF x = 0 THEN 0 ELSE IF x \in from THEN ev.clones[map[x]][2] ELSE -x
        srcA == C!LiveOn(ws, a)
        dstA == C!LiveOn(wd, a)
        srcIds == UNION {C!Ids(ws.alive[t].vals) : t \in srcA}
        oldIds == UNION {C!Ids(wd.alive[t].vals) : t \in dstA}
        keepAlive == [t \in DOMAIN wd.alive \ dstA |-> wd.alive[t]]
        copied == [t \in srcA |-> [a |-> a, vals |-> [i \in DOMAIN ws.alive[t].vals |->
                                      <<newId(ws.alive[t].vals[i][1]), ws.alive[t].vals[i][2]>>]]]
        isA(t) == t[1] = C!IdOf(a)
        wOk == [wd EXCEPT !.alive = copied @@ keepAlive,
                          !.issued = {t \in @ : ~isA(t)} \cup {t \in ws.issued : isA(t)},
                          !.cap[a + 1] = ws.cap[a + 1], !.rm[a + 1] = ws.rm[a + 1], !.cr[a + 1] = ws.cr[a + 1],
                          !.dirs = {r \in @ : r.a # a} \cup {r \in ws.dirs : r.a = a},
                          \* the overwritten archetype takes over the source's history: direct tokens of the
                          \* old contents are foreign values from now on
                          !.deadD = {x \in @ : x[1] # C!IdOf(a)} \cup {x \in ws.deadD : x[1] = C!IdOf(a)},
                          !.evc[a + 1] = ws.evc[a + 1], !.evd[a + 1] = ws.evd[a + 1],
                          !.aver[a + 1] = ws.aver[a + 1], !.wrapped[a + 1] = ws.wrapped[a + 1], !.awrapped[a + 1] = ws.awrapped[a + 1]]
        \* after a panic the archetype may be found emptied: its direct handles are dead then
        wEmpty == [wd EXCEPT !.alive = keepAlive, !.dirs = {r \in @ : r.a # a},
                             !.deadD = @ \cup {r.d : r \in {x \in wd.dirs : x.a = a}}]
        od == CHOOSE o \in SeqSet(ev.obs) : o.w = ev.dst
        fullClone == from = srcIds /\ Cardinality(to) = Len(ev.clones) /\ Len(ev.clones) = Cardinality(from)
        \* `*self = source.clone()` completes the assignment even when dropping the old contents
        \* panics: after a panic the archetype may be unchanged, emptied, or fully replaced
        replaced == fullClone /\ od.ar[a + 1].len = Cardinality(srcA)
                    /\ (srcA # {} \/ dstA = {} \/ od.ar[a + 1].cap = ws.cap[a + 1])
                    /\ \A i \in DOMAIN od.ar[a + 1].snap : C!Ids(od.ar[a + 1].snap[i][2]) \subseteq to
        emptied == ~replaced /\ od.ar[a + 1].len = 0 /\ dstA # {}
    IN IF ev.out[1] = "ok"
       THEN Finish(s, [s.W EXCEPT ![ev.dst] = wOk], ev, oldIds, TRUE, -1, {},
                   If(~fullClone,
                      {V(<<"C04", "C13">>, at, "archetype clone_from did not clone each live component exactly once")}), {}, 0, at)
       ELSE IF replaced
       THEN Finish(s, [s.W EXCEPT ![ev.dst] = wOk], ev, oldIds, FALSE, -1, {},
                   If(~ev.fault, {V(<<"C10", "C11">>, at, "archetype clone_from panicked without an injected fault")}),
                   oldIds \ SeqSet(ev.drops), C!ZCount(wd), at)
       ELSE Finish(s, [s.W EXCEPT ![ev.dst] = IF emptied THEN wEmpty ELSE wd], ev, to \cup oldIds, FALSE, -1, {},
                   If(~ev.fault, {V(<<"C10", "C11">>, at, "archetype clone_from panicked without an injected fault")}),
                   (to \cup (IF emptied THEN oldIds ELSE {})) \ SeqSet(ev.drops), ev.zc + (IF emptied THEN C!ZCount(wd) ELSE 0), at)

StepDropWorld(s, ev, at) ==
    LET w == s.W[ev.w]
        owned == C!OwnedIds(w)
        W1 == C!Remove(s.W, ev.w)
    IN IF ev.out[1] = "ok"
       THEN Finish(s, W1, ev, owned, TRUE, -1, {},
                   If(ev.zd # C!ZCount(w), {V(<<"C04">>, at, "dropping the world did not drop each zero-sized component exactly once")}),
                   {}, 0, at)
       ELSE Finish(s, W1, ev, owned, FALSE, -1, {},
                   If(~ev.fault, {V(<<"C10">>, at, "dropping the world panicked without an injected fault")}),
                   owned \ SeqSet(ev.drops), C!ZCount(w), at)

StepClearEvents(s, ev, at) ==
    LET w == s.W[ev.w]
        w1 == IF ~ev.active THEN w
              ELSE IF ev.scope = -1 THEN [w EXCEPT !.evc = [i \in 1..C!NA |-> {}], !.evd = [i \in 1..C!NA |-> {}]]
              ELSE [w EXCEPT !.evc[ev.scope + 1] = {}, !.evd[ev.scope + 1] = {}]
    IN Finish(s, [s.W EXCEPT ![ev.w] = w1], ev, {}, TRUE, ev.w, {}, {}, {}, 0, at)

StepPreset(s, ev, at) ==
    Finish(s, s.W, ev, {}, TRUE, ev.w, {},
           If(ev.out[1] # "ok", {V(<<"TOOL">>, at, "preset on a non-empty archetype")}), {}, 0, at)

StepReset(s, ev, at) ==
    [st |-> EmptySt,
     v  |-> If(DOMAIN s.W # {}, {V(<<"TOOL">>, at, "reset with worlds still alive")})
       \cup If(~(SeqSet(ev.live) \subseteq s.leaked),
               {V(<<"C04">>, at, "component values still alive after all worlds were dropped (leak)")})
       \cup If(ev.zl < 0 \/ ev.zl > s.zleak,
               {V(<<"C04">>, at, "zero-sized component values leaked or dropped twice")})]

\* A panic escaped a path that must never panic (a read path, an internal assertion), or the
\* process died on a signal: memory safety / internal consistency is gone for this run.
StepCrash(s, ev, at) ==
    [st |-> EmptySt,
     v  |-> {V(<<"C03", "C10", "C01", "C02", "C04", "C06", "C07", "C09", "C12", "C13">>, at,
               IF ev.signal # 0 THEN "the process died on a signal (memory safety)"
               ELSE "a panic escaped from a path that must not panic (internal assertion)")}]

Step0(s, ev, at) ==
    CASE ev.op = "decl"          -> [st |-> s, v |-> If("num_archetypes" \in DOMAIN ev /\ ev.num_archetypes # Len(ev.archs),
                                                             {V(<<"C15", "C16">>, at, "World::NUM_ARCHETYPES differs from the number of declared archetypes")})]
      [] ev.op = "reset"         -> StepReset(s, ev, at)
      [] ev.op = "init"          -> StepInit(s, ev, at)
      [] ev.op = "create"        -> StepCreate(s, ev, FALSE, at)
      [] ev.op = "create_within" -> StepCreate(s, ev, TRUE, at)
      [] ev.op = "destroy"       -> StepDestroy(s, ev, at)
      [] ev.op = "to_direct"     -> StepToDirect(s, ev, at)
      [] ev.op = "write"         -> StepWrite(s, ev, at)
      [] ev.op = "loop"          -> StepLoop(s, ev, at)
      [] ev.op = "find"          -> StepFind(s, ev, at)
      [] ev.op = "clone"         -> StepClone(s, ev, at)
      [] ev.op = "arch_clone_from" -> StepArchCloneFrom(s, ev, at)
      [] ev.op = "drop_world"    -> StepDropWorld(s, ev, at)
      [] ev.op = "clear_events"  -> StepClearEvents(s, ev, at)
      [] ev.op = "preset"        -> StepPreset(s, ev, at)
      [] ev.op = "crash"         -> StepCrash(s, ev, at)
      [] ev.op = "noop"          -> Finish(s, s.W, ev, {}, TRUE, -1, {}, {}, {}, 0, at)

\* C10: the state after a panic that unwound out of an operation must satisfy everything else, so
\* whatever is violated right after a panicking operation is (also) a C10 violation
\* C04 / C13 for columns whose type has no drop glue: Clone::clone runs once per live cell of a
\* cloned world / archetype (at most that often when the clone panics), and in no other operation.
NcViol(s, ev, at) ==
    IF "nc" \notin DOMAIN ev THEN {}
    ELSE LET isClone == ev.op = "clone" /\ ev.w \in DOMAIN s.W
             isArch  == ev.op = "arch_clone_from" /\ ev.w \in DOMAIN s.W
             hi == IF isClone THEN C!NCount(s.W[ev.w]) ELSE IF isArch THEN C!NCountOn(s.W[ev.w], ev.a) ELSE 0
             lo == IF (isClone \/ isArch) /\ ev.out[1] = "ok" THEN hi ELSE 0
         IN If(ev.nc < lo \/ ev.nc > hi,
               {V(<<"C04", "C13">>, at, "Clone::clone of a component without drop glue did not run exactly once per live cell of the cloned world (or ran in an operation that clones nothing)")})

Step(s, ev, at) ==
    LET r0 == Step0(s, ev, at)
        r  == [r0 EXCEPT !.v = @ \cup NcViol(s, ev, at)]
        panicked == "out" \in DOMAIN ev /\ ev.op # "crash" /\ ev.out[1] = "p"
    IN IF panicked
       THEN [r EXCEPT !.v = {[x EXCEPT !.p = IF "C10" \in SeqSet(@) \/ "TOOL" \in SeqSet(@) THEN @ ELSE @ \o <<"C10">>] : x \in @}]
       ELSE r

---------------------------------------------------------------------------
Init == l = 1 /\ st = EmptySt /\ viol = {} /\ pcs = ZeroPc

Next == /\ l <= Len(Rec)
        /\ LET r == Step(st, Rec[l], l) IN
           /\ st' = r.st
           /\ viol' = viol \cup r.v
           /\ pcs' = IF "pc" \in DOMAIN r THEN AddPc(pcs, r.pc) ELSE pcs
        /\ l' = l + 1

Spec == Init /\ [][Next]_vars

\* Fires once, in the final state: hands the complete list of violations to the driver.
Report == (l = Len(Rec) + 1) => (PrintT(<<"VIOLATIONS", ToJson(viol)>>) /\ PrintT(<<"PROBECLASSES", pcs>>))

Consumed == IF TLCGet("stats").diameter = Len(Rec) + 1 THEN TRUE
            ELSE PrintT(<<"STOPPED_AT", TLCGet("stats").diameter>>) /\ FALSE
=============================================================================
