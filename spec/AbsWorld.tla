------------------------------ MODULE AbsWorld ------------------------------
(***************************************************************************)
(* The representation-free meaning of a set of worlds over one archetype   *)
(* (C13, C17 and the storage-level core of C01/C08): per world a set of    *)
(* live tokens and, with the events feature, the created / destroyed logs. *)
(* An operation on one world leaves every other world untouched; clone and *)
(* clone_from copy the whole abstract state of the source; drop forgets it.*)
(* WorldMC (the slot-map model lifted to two worlds) is checked to         *)
(* IMPLEMENT this machine (PROPERTY RefinesW), the live sets being read    *)
(* out of each storage's dense handle column.                              *)
(***************************************************************************)
EXTENDS Integers, FiniteSets, Sequences

CONSTANTS Worlds, Tokens, WithEvents

VARIABLES wEx, wLive, wCr, wDs
wvars == <<wEx, wLive, wCr, wDs>>

Log(l, w, t) == IF WithEvents THEN [l EXCEPT ![w] = Append(@, t)] ELSE l
Range(q) == {q[i] : i \in DOMAIN q}

\* some world exists at the start (which one, and with what capacity, is representation)
WInit == /\ wEx \in [Worlds -> BOOLEAN]
         /\ wLive = [w \in Worlds |-> {}]
         /\ wCr = [w \in Worlds |-> <<>>]
         /\ wDs = [w \in Worlds |-> <<>>]

WCreate(w) == \E t \in Tokens :
    /\ wEx[w] /\ t \notin wLive[w]
    /\ wLive' = [wLive EXCEPT ![w] = @ \cup {t}]
    /\ wCr' = Log(wCr, w, t)
    /\ UNCHANGED <<wEx, wDs>>

WDestroy(w) == \E t \in wLive[w] :
    /\ wEx[w]
    /\ wLive' = [wLive EXCEPT ![w] = @ \ {t}]
    /\ wDs' = Log(wDs, w, t)
    /\ UNCHANGED <<wEx, wCr>>

\* a destroying loop removes a non-empty set of live tokens, each logged once, in some order
IsPermOf(q, F) == Len(q) = Cardinality(F) /\ Range(q) = F
WDestroyMany(w) == \E F \in (SUBSET wLive[w]) \ {{}} :
    /\ wEx[w]
    /\ wLive' = [wLive EXCEPT ![w] = @ \ F]
    /\ IF WithEvents
       THEN \E n \in 1..Cardinality(F) : \E q \in [1..n -> F] : IsPermOf(q, F) /\ wDs' = [wDs EXCEPT ![w] = @ \o q]
       ELSE wDs' = wDs
    /\ UNCHANGED <<wEx, wCr>>

\* clone (dst did not exist) and clone_from (it did): dst becomes an exact copy, src is untouched
WClone(src, dst) ==
    /\ src # dst /\ wEx[src]
    /\ wEx' = [wEx EXCEPT ![dst] = TRUE]
    /\ wLive' = [wLive EXCEPT ![dst] = wLive[src]]
    /\ wCr' = [wCr EXCEPT ![dst] = wCr[src]]
    /\ wDs' = [wDs EXCEPT ![dst] = wDs[src]]

WDrop(w) ==
    /\ wEx[w]
    /\ wEx' = [wEx EXCEPT ![w] = FALSE]
    /\ wLive' = [wLive EXCEPT ![w] = {}]
    /\ wCr' = [wCr EXCEPT ![w] = <<>>]
    /\ wDs' = [wDs EXCEPT ![w] = <<>>]

WClear(w) ==
    /\ WithEvents /\ wEx[w]
    /\ wCr' = [wCr EXCEPT ![w] = <<>>]
    /\ wDs' = [wDs EXCEPT ![w] = <<>>]
    /\ UNCHANGED <<wEx, wLive>>

WNext == \E w \in Worlds : WCreate(w) \/ WDestroy(w) \/ WDestroyMany(w) \/ WDrop(w) \/ WClear(w) \/ (\E v \in Worlds : WClone(w, v))
WSpec == WInit /\ [][WNext]_wvars

\* what the abstract machine guarantees on its own
WOk == \A w \in Worlds :
    /\ ~wEx[w] => (wLive[w] = {} /\ wCr[w] = <<>> /\ wDs[w] = <<>>)
    /\ ~WithEvents => (wCr[w] = <<>> /\ wDs[w] = <<>>)
=============================================================================
