----------------------------- MODULE WorldDeclMC -----------------------------
(***************************************************************************)
(* Two-level declarations for C15 / C16: a world of two archetypes, each   *)
(* with an optional explicit id and cfg predicates, each holding two       *)
(* components with optional explicit ids and cfg predicates; every truth   *)
(* assignment.  The expected DataWorld is computed with Ids.tla at both    *)
(* levels: disabled archetypes and components vanish before ids are        *)
(* assigned, the component counter restarts in every archetype, and the    *)
(* same predicate may decorate an archetype and one of its components, or  *)
(* first appear on a component of the later archetype.  Also gives the     *)
(* order in which distinct predicates must be probed (first appearance:    *)
(* an archetype's own attributes, then its components, archetype by        *)
(* archetype), which the cfg macro chain has to follow.                    *)
(*                                                                         *)
(* Alternatives: with sameA the second archetype carries the NAME of the   *)
(* first one, with sameC1 / sameC2 the second component of archetype 1 / 2 *)
(* carries the name of its first component ("the same item under another   *)
(* predicate").  Since a disabled item behaves as if it had not been       *)
(* written, such a declaration is an ordinary one under every assignment   *)
(* that enables at most one of the two; assignments enabling both are not  *)
(* declarations (rustc rejects the duplicate definition) and are skipped.  *)
(***************************************************************************)
EXTENDS Ids, TLC, Json

CONSTANTS Preds, ArchIds, CompIds, PredSets,
          SameChoices   \* subset of BOOLEAN: may a later item reuse the NAME of an earlier one?

Comp == [id : CompIds, preds : PredSets]
FirstComp == Comp
SecondComp == [id : {-1}, preds : PredSets]
Arch == [id : ArchIds, preds : PredSets, c1 : FirstComp, c2 : SecondComp]
Asgs == [Preds -> BOOLEAN]

VARIABLE inp
Init == inp \in [a1 : Arch, a2 : Arch, asg : Asgs, sameA : SameChoices, sameC1 : SameChoices, sameC2 : SameChoices]
Next == UNCHANGED inp
Spec == Init /\ [][Next]_inp

Archs == <<inp.a1, inp.a2>>
EnArchIdx == SelectSeq(<<1, 2>>, LAMBDA i : Enabled(Archs[i], inp.asg))
ArchItems == [k \in DOMAIN EnArchIdx |-> [id |-> Archs[EnArchIdx[k]].id, preds |-> {}]]
ArchRes == Assign(ArchItems)
CompsOf(a) == Reduce(<<a.c1, a.c2>>, inp.asg)
CompRes(a) == Assign(CompsOf(a))
\* an archetype whose components are all disabled is not a declaration (no Storage0): skipped by the driver
Degenerate == \E k \in DOMAIN EnArchIdx : CompsOf(Archs[EnArchIdx[k]]) = <<>>

\* two enabled items of one scope with the same name: not a declaration
NameClash ==
    \/ inp.sameA /\ Enabled(inp.a1, inp.asg) /\ Enabled(inp.a2, inp.asg)
    \/ inp.sameC1 /\ Enabled(inp.a1, inp.asg) /\ Enabled(inp.a1.c1, inp.asg) /\ Enabled(inp.a1.c2, inp.asg)
    \/ inp.sameC2 /\ Enabled(inp.a2, inp.asg) /\ Enabled(inp.a2.c1, inp.asg) /\ Enabled(inp.a2.c2, inp.asg)

\* the first error in declaration order: archetype id, then that archetype's components
RECURSIVE FirstErr(_)
FirstErr(k) ==
    IF k > Len(EnArchIdx) THEN ""
    ELSE IF ~ArchRes.ok /\ ArchRes.at = k THEN ArchRes.err
    ELSE LET cr == CompRes(Archs[EnArchIdx[k]]) IN
         IF ~cr.ok THEN cr.err ELSE FirstErr(k + 1)

\* first-appearance order of the distinct predicates
PredOrder ==
    LET seqOf(S) == IF S = {} THEN <<>> ELSE IF Cardinality(S) = 1 THEN <<CHOOSE x \in S : TRUE>>
                    ELSE LET m == CHOOSE x \in S : \A y \in S : x <= y IN <<m>> \o <<CHOOSE x \in S \ {m} : \A y \in S \ {m} : x <= y>>
        all == seqOf(inp.a1.preds) \o seqOf(inp.a1.c1.preds) \o seqOf(inp.a1.c2.preds)
               \o seqOf(inp.a2.preds) \o seqOf(inp.a2.c1.preds) \o seqOf(inp.a2.c2.preds)
        RECURSIVE Dedup(_, _)
        Dedup(s, acc) == IF s = <<>> THEN acc
                         ELSE IF \E i \in DOMAIN acc : acc[i] = Head(s) THEN Dedup(Tail(s), acc)
                         ELSE Dedup(Tail(s), Append(acc, Head(s)))
    IN Dedup(all, <<>>)

Export ==
    LET err == FirstErr(1)
        flag(S) == [p \in 1..Cardinality(Preds) |-> p \in S]
        archJ(a) == [id |-> a.id, preds |-> flag(a.preds),
                     c1 |-> [id |-> a.c1.id, preds |-> flag(a.c1.preds)], c2 |-> [id |-> a.c2.id, preds |-> flag(a.c2.preds)]]
    IN PrintT(<<"WDECL", ToJson([a1 |-> archJ(inp.a1), a2 |-> archJ(inp.a2),
                 asg |-> [p \in 1..Cardinality(Preds) |-> inp.asg[p]],
                 order |-> PredOrder, degenerate |-> Degenerate, clash |-> NameClash,
                 sameA |-> inp.sameA, sameC1 |-> inp.sameC1, sameC2 |-> inp.sameC2, ok |-> err = "", err |-> err,
                 archs |-> IF err = "" THEN [k \in DOMAIN EnArchIdx |->
                              [which |-> EnArchIdx[k], id |-> ArchRes.ids[k],
                               comps |-> LET a == Archs[EnArchIdx[k]]
                                             en == SelectSeq(<<1, 2>>, LAMBDA j : Enabled(<<a.c1, a.c2>>[j], inp.asg))
                                         IN [m \in DOMAIN en |-> [which |-> en[m], id |-> CompRes(a).ids[m]]]]]
                           ELSE <<>>])>>)

TwoPreds == {1, 2}
NoSame == {FALSE}
NoIds == {-1}
ArchIdChoices == {-1, 1}
CompIdChoices == {-1, 1}
ThreePredSets == {{}, {1}, {2}}
FourPredSets == {{}, {1}, {2}, {1, 2}}
=============================================================================
