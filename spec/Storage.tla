------------------------------ MODULE Storage ------------------------------
(***************************************************************************)
(* Implementation-level model of one gecs archetype storage               *)
(* (src/archetype/storage.rs StorageN, slot.rs, version.rs): a generational*)
(* sparse/dense slot map.  Pure operator library over a storage record, no *)
(* variables, no recursion, fixed-domain functions: the same text is used  *)
(* by TLC (StorageMC) and by Apalache (StorageInd).                        *)
(*                                                                         *)
(*   cap, len, aver     capacity, length, archetype version                *)
(*   head               free-list head position, END when empty           *)
(*   free[p]            slot p is on the free list (top bit of Slot.index) *)
(*   idx[p]             dense index (live) / next free position (free)     *)
(*   ver[p]             slot generation                                    *)
(*   dpos[i], dver[i]   position and generation of the handle stored at    *)
(*                      dense index i (the `entities` column)              *)
(*   val[i]             the component value stored at dense index i; the   *)
(*                      model stores the identity Code(pos, gen) of the    *)
(*                      entity it was created for                          *)
(* Cells outside [0,cap) resp. [0,len) are kept at canonical defaults.     *)
(***************************************************************************)
EXTENDS Integers

CONSTANTS
    \* @type: Int;
    MaxCap,        \* stands for 2^24
    \* @type: Int;
    MaxSlotVer,    \* stands for 2^32-1
    \* @type: Int;
    MaxArchVer,    \* stands for 2^32-1
    \* @type: Bool;
    Wrapping,      \* feature wrapping_version
    \* @type: Bool;
    DebugAsserts   \* debug_assertions on

\* @typeAlias: st = { cap: Int, len: Int, aver: Int, head: Int, free: Int -> Bool, idx: Int -> Int, ver: Int -> Int, dpos: Int -> Int, dver: Int -> Int, val: Int -> Int };
StorageAliases == TRUE

END == -1
Pos == 0..(MaxCap - 1)
\* @type: (Int, Int) => Int;
Code(p, g) == p * 1000 + g
\* @type: (Int, Int) => Int;
Min(a, b) == IF a < b THEN a ELSE b

\* with_capacity(c): free list 0 -> 1 -> ... -> c-1 -> END, all generations 1, version 1
\* @type: (Int) => $st;
New(c) ==
    [cap |-> c, len |-> 0, aver |-> 1, head |-> IF c = 0 THEN END ELSE 0,
     free |-> [p \in Pos |-> p < c],
     idx  |-> [p \in Pos |-> IF p < c /\ p # c - 1 THEN p + 1 ELSE IF p = c - 1 THEN END ELSE 0],
     ver  |-> [p \in Pos |-> IF p < c THEN 1 ELSE 0],
     dpos |-> [i \in Pos |-> 0], dver |-> [i \in Pos |-> 0], val |-> [i \in Pos |-> 0]]

\* @type: (Int) => Int;
GrowCap(c) == Min(2 * (c + 1), MaxCap)

\* grow(): precondition len = cap < MaxCap.  The new tail [len, cap') becomes the WHOLE free
\* list (the old one is empty because len = cap).
\* @type: ($st) => $st;
Grow(s) ==
    LET c2 == GrowCap(s.cap) IN
    [s EXCEPT !.cap = c2,
              !.head = s.len,
              !.free = [p \in Pos |-> IF p >= s.len /\ p < c2 THEN TRUE ELSE s.free[p]],
              !.idx  = [p \in Pos |-> IF p >= s.len /\ p < c2 THEN (IF p = c2 - 1 THEN END ELSE p + 1) ELSE s.idx[p]],
              !.ver  = [p \in Pos |-> IF p >= s.len /\ p < c2 THEN 1 ELSE s.ver[p]]]

\* force_create: pop the free-list head, write handle and value at dense index len
\* @type: ($st) => $st;
ForceCreate(s) ==
    LET p == s.head IN
    [s EXCEPT !.head = s.idx[p],
              !.free = [s.free EXCEPT ![p] = FALSE],
              !.idx  = [s.idx EXCEPT ![p] = s.len],
              !.dpos = [s.dpos EXCEPT ![s.len] = p],
              !.dver = [s.dver EXCEPT ![s.len] = s.ver[p]],
              !.val  = [s.val EXCEPT ![s.len] = Code(p, s.ver[p])],
              !.len  = s.len + 1]

\* position and generation of the handle the next create will return
\* @type: ($st) => Int;
NextPos(s) == IF s.len >= s.cap THEN s.len ELSE s.head
\* @type: ($st) => Int;
NextGen(s) == IF s.len >= s.cap THEN 1 ELSE s.ver[s.head]

\* push: "ok" | "panic" (capacity overflow, nothing touched)
\* @type: ($st) => Str;
PushOutcome(s) == IF s.len >= s.cap /\ s.cap >= MaxCap THEN "panic" ELSE "ok"
\* @type: ($st) => $st;
Push(s) == IF PushOutcome(s) = "panic" THEN s
           ELSE IF s.len >= s.cap THEN ForceCreate(Grow(s)) ELSE ForceCreate(s)

\* push_within_capacity: Err iff len >= cap
\* @type: ($st) => Bool;
WithinOk(s) == s.len < s.cap

\* resolve_entity: -1 = None, -2 = panic (debug assertion), otherwise the dense index
\* @type: ($st, Int, Int) => Int;
ResolveEntity(s, pos, gen) ==
    IF s.len = 0 THEN -1
    ELSE IF pos >= s.cap THEN (IF DebugAsserts THEN -2 ELSE -1)
    ELSE IF s.ver[pos] # gen \/ s.free[pos] THEN -1
    ELSE s.idx[pos]

\* resolve_direct
\* @type: ($st, Int, Int) => Int;
ResolveDirect(s, i, av) ==
    IF s.len = 0 THEN -1
    ELSE IF av # s.aver THEN -1
    ELSE IF i >= s.len THEN (IF DebugAsserts THEN -2 ELSE -1)
    ELSE i

\* version.rs next(): 0 = panic (overflow without wrapping_version)
\* @type: (Int, Int) => Int;
NextVer(v, max) == IF v < max THEN v + 1 ELSE IF Wrapping THEN 1 ELSE 0

\* @type: ($st, Int) => Bool;
DestroyPanics(s, p) == NextVer(s.ver[p], MaxSlotVer) = 0 \/ NextVer(s.aver, MaxArchVer) = 0

\* force_destroy(p, i) in the order of the repaired code: both next versions first (may
\* panic, nothing touched), then swap-remove, re-point the moved entity, release, bump.
\* @type: ($st, Int, Int) => $st;
ForceDestroy(s, p, i) ==
    LET last == s.len - 1
        lp   == s.dpos[last]
        idx1 == [s.idx EXCEPT ![lp] = i]            \* fix up the slot of the moved entity
        idx2 == [idx1 EXCEPT ![p] = s.head]         \* release: link into the free list
    IN
    [s EXCEPT !.dpos = [q \in Pos |-> IF q = last THEN 0 ELSE IF q = i THEN s.dpos[last] ELSE s.dpos[q]],
              !.dver = [q \in Pos |-> IF q = last THEN 0 ELSE IF q = i THEN s.dver[last] ELSE s.dver[q]],
              !.val  = [q \in Pos |-> IF q = last THEN 0 ELSE IF q = i THEN s.val[last] ELSE s.val[q]],
              !.idx  = idx2,
              !.free = [s.free EXCEPT ![p] = TRUE],
              !.ver  = [s.ver EXCEPT ![p] = NextVer(s.ver[p], MaxSlotVer)],
              !.aver = NextVer(s.aver, MaxArchVer),
              !.head = p,
              !.len  = s.len - 1]

\* The pinned (pre-fix) order, state left behind when the generation bump panics: the cell
\* was already swap-removed and the slot relinked, but head and len were not updated (D1).
\* @type: ($st, Int, Int) => $st;
ForceDestroyPinnedPanic(s, p, i) ==
    LET last == s.len - 1
        lp   == s.dpos[last]
        idx1 == [s.idx EXCEPT ![lp] = i]
        idx2 == [idx1 EXCEPT ![p] = s.head]
        slotPanics == NextVer(s.ver[p], MaxSlotVer) = 0
    IN
    [s EXCEPT !.dpos = [q \in Pos |-> IF q = last THEN 0 ELSE IF q = i THEN s.dpos[last] ELSE s.dpos[q]],
              !.dver = [q \in Pos |-> IF q = last THEN 0 ELSE IF q = i THEN s.dver[last] ELSE s.dver[q]],
              !.val  = [q \in Pos |-> IF q = last THEN 0 ELSE IF q = i THEN s.val[last] ELSE s.val[q]],
              !.idx  = idx2,
              !.free = [s.free EXCEPT ![p] = TRUE],
              !.ver  = [s.ver EXCEPT ![p] = IF slotPanics THEN s.ver[p] ELSE NextVer(s.ver[p], MaxSlotVer)]]

(***************************************************************************)
(* Local part of the representation invariant (everything except the free  *)
(* chain, which needs reachability; see StorageMC!ChainOk / StorageInd).   *)
(***************************************************************************)
\* @type: ($st) => Bool;
RepLocal(s) ==
    /\ s.len >= 0 /\ s.len <= s.cap /\ s.cap <= MaxCap
    /\ s.aver >= 1
    /\ \A d \in Pos : d < s.len =>
          /\ s.dpos[d] \in Pos /\ s.dpos[d] < s.cap
          /\ ~s.free[s.dpos[d]] /\ s.idx[s.dpos[d]] = d /\ s.ver[s.dpos[d]] = s.dver[d]
          /\ s.val[d] = Code(s.dpos[d], s.dver[d])
    /\ \A p \in Pos : (p < s.cap /\ ~s.free[p]) =>
          (s.idx[p] >= 0 /\ s.idx[p] < s.len /\ s.dpos[s.idx[p]] = p)
    /\ \A p \in Pos : p < s.cap => s.ver[p] >= 1
    /\ (s.len = s.cap <=> s.head = END)
    /\ (s.head # END => (s.head \in Pos /\ s.head < s.cap /\ s.free[s.head]))
=============================================================================
