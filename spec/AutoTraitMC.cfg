SPECIFICATION Spec
INVARIANTS Export
CHECK_DEADLOCK FALSE
