SPECIFICATION Spec
CONSTANTS
  IdChoices <- IdsQuick
  MaxItems = 3
  Preds <- TwoPreds
INVARIANTS RuleHolds ReduceEquivalent Export
CHECK_DEADLOCK FALSE
