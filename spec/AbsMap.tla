------------------------------- MODULE AbsMap -------------------------------
(***************************************************************************)
(* The representation-free meaning of one archetype: a set of live tokens  *)
(* out of a universe, the set of tokens ever issued, a removal counter and *)
(* the one tracked direct handle.  This is the storage-level core of       *)
(* Contract.tla written as an ordinary state machine, so that the          *)
(* implementation-level model can be checked to IMPLEMENT it (StorageMC    *)
(* PROPERTY Refines): every step of the slot map - free-list pop, growth,  *)
(* swap-remove, relinking, generation bump - is either one abstract step   *)
(* or a stutter, under the mapping that reads the live set out of the      *)
(* dense handle column.                                                    *)
(*                                                                         *)
(*   C08  Create issues a token that was never issued (unless Reuse)       *)
(*   C01  the live set changes only by Create (+1 token) / Destroy (-1)    *)
(*   C12  |live| moves by exactly one; nothing else changes it             *)
(*   C09  a direct record is minted for a live token at the current        *)
(*        removal count                                                    *)
(***************************************************************************)
EXTENDS Integers, FiniteSets

CONSTANTS Tokens,   \* universe of handle values
          Reuse     \* TRUE under wrapping_version: an ancient token may be issued again

VARIABLES aLive, aIssued, aRm, aDir
avars == <<aLive, aIssued, aRm, aDir>>

AInit == aLive = {} /\ aIssued = {} /\ aRm = 0 /\ aDir = {}

ACreate == \E t \in Tokens :
    /\ t \notin aLive
    /\ Reuse \/ t \notin aIssued
    /\ aLive' = aLive \cup {t}
    /\ aIssued' = aIssued \cup {t}
    /\ UNCHANGED <<aRm, aDir>>

ADestroy == \E t \in aLive :
    /\ aLive' = aLive \ {t}
    /\ aRm' = aRm + 1
    /\ UNCHANGED <<aIssued, aDir>>

AMint == \E t \in aLive :
    /\ aDir' = {[h |-> t, born |-> aRm]}
    /\ UNCHANGED <<aLive, aIssued, aRm>>

ANext == ACreate \/ ADestroy \/ AMint
ASpec == AInit /\ [][ANext]_avars

\* what the abstract machine guarantees on its own (checked by AbsMapMC.cfg)
ATypeOk == aLive \subseteq aIssued /\ aIssued \subseteq Tokens /\ aRm >= 0
ADirOk == \A r \in aDir : r.born <= aRm /\ (r.born = aRm => r.h \in aLive)
=============================================================================
