------------------------------ MODULE ClientMC ------------------------------
(***************************************************************************)
(* C18(b): which client programs must be rejected by the borrow checker.   *)
(* A client takes a HOLDER out of the world (a view, a component reference,*)
(* a Borrow, a Ref guard, an iterator item, a slice ...), which keeps the  *)
(* world borrowed shared or mutably until its last use, and performs an    *)
(* INTRUDER call that needs the world shared or mutably.  The program is   *)
(* unsound exactly when the intruder runs while the holder is still live   *)
(* and at least one of the two borrows is mutable.  TLC enumerates every   *)
(* (holder, intruder, order) with the expected verdict and error class;    *)
(* every forbidden program is paired with its sound twin (holder's last    *)
(* use moved before the intruder), and both are compiled by rustc.         *)
(***************************************************************************)
EXTENDS Integers, Sequences, FiniteSets, TLC, Json

Holders == {
    [name |-> "view",      kind |-> "mut"],      \* world.view(e)
    [name |-> "viewcomp",  kind |-> "mut"],      \* view.component_mut::<C>()
    [name |-> "borrow",    kind |-> "shared"],   \* world.borrow(e)
    [name |-> "refc",      kind |-> "shared"],   \* borrow.component::<C>()  (Ref guard)
    [name |-> "refmut",    kind |-> "shared"],   \* borrow.component_mut::<C>() (RefMut guard, world shared)
    [name |-> "iteritem",  kind |-> "mut"],      \* archetype.iter().next()
    [name |-> "itermut",   kind |-> "mut"],      \* archetype.iter_mut().next()
    [name |-> "slice",     kind |-> "mut"],      \* archetype.get_slice::<C>()
    [name |-> "slicemut",  kind |-> "mut"],      \* archetype.get_slice_mut::<C>()
    [name |-> "slices",    kind |-> "mut"],      \* archetype.get_all_slices_mut()
    [name |-> "entities",  kind |-> "shared"],   \* archetype.entities()
    [name |-> "bslice",    kind |-> "shared"],   \* archetype.borrow_slice::<C>()
    [name |-> "archref",   kind |-> "shared"],   \* world.archetype::<A>()
    [name |-> "archmut",   kind |-> "mut"],      \* world.archetype_mut::<A>()
    [name |-> "bentity",   kind |-> "shared"],   \* borrow.entity()
    [name |-> "viewent",   kind |-> "mut"],      \* view.entity (handle reference inside a view)
    [name |-> "bslicemut", kind |-> "shared"],   \* archetype.borrow_slice_mut::<C>() (RefMut guard, world shared)
    [name |-> "entrefany", kind |-> "shared"],   \* <&EntityAny>::from(&archetype.entities()[0])
    [name |-> "entsel",    kind |-> "shared"] }  \* &Entity<A> taken from entities() and kept as a reference

Intruders == {
    [name |-> "create",    kind |-> "mut"],
    [name |-> "createwc",  kind |-> "mut"],      \* create_within_capacity
    [name |-> "destroy",   kind |-> "mut"],
    [name |-> "destroyany",kind |-> "mut"],
    [name |-> "view2",     kind |-> "mut"],
    [name |-> "iterq",     kind |-> "mut"],      \* ecs_iter!(world, ..)
    [name |-> "iterdq",    kind |-> "mut"],      \* ecs_iter_destroy!(world, ..)
    [name |-> "clone",     kind |-> "shared"],
    [name |-> "contains",  kind |-> "shared"],
    [name |-> "len",       kind |-> "shared"],
    [name |-> "iterbq",    kind |-> "shared"],   \* ecs_iter_borrow!(world, ..)
    [name |-> "slice2",    kind |-> "mut"],      \* a second get_slice (takes &mut self)
    [name |-> "slicemut2", kind |-> "mut"],      \* a second get_slice_mut of another column
    [name |-> "slices2",   kind |-> "mut"],      \* get_all_slices_mut
    [name |-> "bslice2",   kind |-> "shared"],   \* borrow_slice of another column
    [name |-> "findq",     kind |-> "mut"],      \* ecs_find!(world, e2, ..)
    [name |-> "findbq",    kind |-> "shared"],   \* ecs_find_borrow!(world, e2, ..)
    [name |-> "todirect",  kind |-> "shared"] }  \* world.to_direct(e2)

Orders == {"overlap", "sequential"}

VARIABLE prog
Init == prog \in [h : Holders, i : Intruders, order : Orders]
Next == UNCHANGED prog
Spec == Init /\ [][Next]_prog

Conflict(h, i) == h.kind = "mut" \/ i.kind = "mut"
Compiles(p) == p.order = "sequential" \/ ~Conflict(p.h, p.i)
ErrCode(p) == IF p.h.kind = "mut" /\ p.i.kind = "mut" THEN "E0499" ELSE "E0502"

\* every forbidden program has a compiling twin
TwinCompiles == ~Compiles(prog) => Compiles([prog EXCEPT !.order = "sequential"])
Export == PrintT(<<"CLIENT", ToJson([h |-> prog.h.name, i |-> prog.i.name, order |-> prog.order,
                                     compiles |-> Compiles(prog), err |-> IF Compiles(prog) THEN "" ELSE ErrCode(prog)])>>)
=============================================================================
