// Demonstrates D1, D2, D3 on the real crate (needs --cfg gecs_verif for the preset hook in D1).
// Prints one line per defect: "D1 pinned|fixed ...". Exit code 0 always; the lines are the data.
use gecs::prelude::*;
use std::panic::{catch_unwind, AssertUnwindSafe};
use std::sync::atomic::{AtomicI64, Ordering};

static LIVE: AtomicI64 = AtomicI64::new(0);
pub struct V(pub u32);
impl V { fn new(x: u32) -> V { LIVE.fetch_add(1, Ordering::SeqCst); V(x) } }
impl Drop for V { fn drop(&mut self) { LIVE.fetch_sub(1, Ordering::SeqCst); } }

ecs_world! { ecs_archetype!(A, V); }

fn main() {
    std::panic::set_hook(Box::new(|_| {}));
    // D1: destroy at slot-generation overflow, then keep using the world.
    {
        let mut w = EcsWorld::with_capacity(EcsWorldCapacity { a: 4 });
        w.a.data.verif_preset_versions(u32::MAX, 7);
        let keep = w.create::<A>((V::new(5),));
        let victim = w.create::<A>((V::new(6),));
        let last = w.create::<A>((V::new(777),));
        let _ = (keep, last);
        // victim sits at generation u32::MAX: its destroy must panic (default features).
        let r = catch_unwind(AssertUnwindSafe(|| w.destroy(victim).map(|c| c.v.0)));
        let mut seen = Vec::new();
        ecs_iter!(w, |v: &V| { seen.push(v.0); });
        let contains = w.contains(victim);
        let len = w.a.len();
        drop(w);
        let live = LIVE.load(Ordering::SeqCst);
        let ok = r.is_err() && contains && len == 3 && seen == vec![5, 6, 777] && live == 0;
        println!("D1 {} panicked={} contains(victim)={} len={} iter={:?} live_after_drop={}",
            if ok { "fixed" } else { "pinned" }, r.is_err(), contains, len, seen, live);
    }
    // D2: direct handles minted by ecs_iter_destroy! after the first removal in the loop.
    {
        let mut w = EcsWorld::new();
        for i in 0..3 { w.create::<A>((V::new(i),)); }
        let mut minted: Vec<(u32, EntityDirect<A>)> = Vec::new();
        let mut first = true;
        ecs_iter_destroy!(w, |v: &V, d: &EntityDirect<A>| {
            minted.push((v.0, *d));
            if first { first = false; EcsStepDestroy::ContinueDestroy } else { EcsStepDestroy::Continue }
        });
        // Nothing was removed after the 2nd and 3rd handles were issued.
        let acc: Vec<bool> = minted.iter().skip(1).map(|(_, d)| w.contains(*d)).collect();
        let ok = acc.iter().all(|b| *b);
        println!("D2 {} handles minted after first removal accepted right after loop: {:?}",
            if ok { "fixed" } else { "pinned" }, acc);
    }
    // D3: to_direct(stale direct key).
    {
        let mut w = EcsWorld::new();
        let e0 = w.create::<A>((V::new(1),));
        let e1 = w.create::<A>((V::new(2),));
        let d1 = w.to_direct(e1).unwrap();
        w.destroy(e0);
        let t = w.to_direct(d1).is_some();
        let t_any = w.to_direct(d1.into_any()).is_some();
        let t_arch = w.a.to_direct(d1).is_some();
        let c = w.contains(d1);
        let ok = !t && !t_any && !t_arch && !c;
        println!("D3 {} to_direct(stale)={} any={} arch={} contains(stale)={}",
            if ok { "fixed" } else { "pinned" }, t, t_any, t_arch, c);
    }
}
