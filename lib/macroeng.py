"""Engines for the macro half of gecs (C05, C15, C16, C18a): TLC enumerates programs with their
expected outcome; every program goes through the REAL generators driven as a library (macrolab),
and a stratified sample is compiled and executed end to end as `#![forbid(unsafe_code)]` crates."""
import json, os, re, random, shutil, subprocess, time
from concurrent.futures import ThreadPoolExecutor
from vlib import *
from engines import cap_violations

MACROS = ["find", "find_borrow", "iter", "iter_borrow", "iter_destroy"]

def tlc_lines(module, cfg_text, tag, workers=8, timeout=3000):
    cfg = os.path.join(BUILD, "tlc", "%s-%d-%s.cfg" % (module, os.getpid(), key_of(cfg_text)[:8]))
    os.makedirs(os.path.dirname(cfg), exist_ok=True)
    with open(cfg, "w") as f:
        f.write(cfg_text)
    rc, out, dt = run_tlc(module, cfg=cfg, workers=workers, timeout=timeout)
    os.remove(cfg)
    if "No error has been found" not in out:
        raise ToolError("%s failed:\n%s" % (module, out[-3000:]))
    items = [json.loads(m.group(1).encode().decode("unicode_escape")) for m in re.finditer(r'<<"%s", "(.*)">>' % tag, out)]
    return items, tlc_stats(out)

# ----------------------------------------------------------------------------- rendering

def render_param_type(p):
    k = p[0]
    if k == "comp": return "&" + p[1]
    if k == "compmut": return "&mut " + p[1]
    if k == "oneof": return "&OneOf<%s>" % ", ".join(p[1:])
    if k == "oneofmut": return "&mut OneOf<%s>" % ", ".join(p[1:])
    if k == "ent": return "&Entity<%s>" % p[1]
    if k == "wild": return "&Entity<_>"
    if k == "any": return "&EntityAny"
    if k == "dir": return "&EntityDirect<%s>" % p[1]
    if k == "dwild": return "&EntityDirect<_>"
    if k == "dany": return "&EntityDirectAny"
    raise ToolError("bad param " + repr(p))

def render_params(params, cfgs=None):
    out = []
    for i, p in enumerate(params):
        attr = ""
        if cfgs and cfgs[i]:
            attr = "".join("#[cfg(%s)] " % c for c in cfgs[i])
        out.append("%sp%d: %s" % (attr, i, render_param_type(p)))
    return ", ".join(out) if out else " "   # `||` would lex as one token

def render_world_body(decl, ids=None):
    parts = []
    for a in decl:
        parts.append("ecs_archetype!(%s, %s);" % (a["name"], ", ".join(a["cols"])))
    return " ".join(parts)

def query_args(mac, params, body="{ }", cfgs=None):
    if mac.startswith("find"):
        return "world, entity, |%s| %s" % (render_params(params, cfgs), body)
    return "world, |%s| %s" % (render_params(params, cfgs), body)

def norm_type(s):
    return re.sub(r"\s+", "", s)

def run_lab(binp, requests):
    p = subprocess.run([binp], input="\n".join(requests) + "\n", text=True, stdout=subprocess.PIPE, stderr=subprocess.PIPE, timeout=3000)
    if p.returncode != 0:
        raise ToolError("macrolab failed rc=%d %s" % (p.returncode, p.stderr[-2000:]))
    res = [json.loads(l) for l in p.stdout.splitlines()]
    if len(res) != len(requests):
        raise ToolError("macrolab: %d requests, %d answers" % (len(requests), len(res)))
    return res

def err_class(msg):
    if "OneOf parameter is ambiguous" in msg: return "ambiguous"
    if "matched no archetypes" in msg: return "nomatch"
    if "not currently supported on OneOf" in msg: return "oneof_cfg"
    if "already assigned" in msg: return "duplicate"
    if "may not exceed 255" in msg or "too large to fit" in msg: return "exceeds"
    return "other:" + msg[:80]

def lab_compare(prog, mac, res):
    """None if the generator output agrees with the expected outcome of `prog`, else a message."""
    exp = prog["outcome"]
    if res["res"] == "err":
        c = err_class(res["msg"])
        return None if c == exp else "expected %s, generator reports %s" % (exp, c)
    if res["res"] != "ok":
        return "generator %s" % res["res"]
    if exp != "ok":
        return "expected compile error %s, generator accepted the query" % exp
    blocks = res["blocks"]
    if mac.startswith("find"):
        if len(blocks) % 2 != 0 or any(blocks[i] != blocks[i + 1] for i in range(0, len(blocks), 2)):
            return "find arms for entity and direct keys differ"
        blocks = blocks[0::2]
    got = [(b[0], [norm_type(x.split(":", 1)[1]) for x in b[1].split(",") if ":" in x]) for b in blocks]
    want = [(m["name"], [norm_type(t[0] + " " + t[1]) if t[0] == "&mut" else norm_type(t[0] + t[1]) for t in m["types"]]) for m in prog["matched"]]
    if [g[0] for g in got] != [w[0] for w in want]:
        return "acts on archetypes %s, expected %s" % ([g[0] for g in got], [w[0] for w in want])
    for g, w in zip(got, want):
        if g[1] != w[1]:
            return "archetype %s: parameters bound to %s, expected %s" % (g[0], g[1], w[1])
    return None

# ----------------------------------------------------------------------------- end to end

POOL = ["Ca", "Cb", "Cc", "Cd", "Cab", "Caba", "Ca_", "_Cb", "C__c", "UIState", "AABB", "Vec2D"]
ODD_NAMES = ("Ca_", "_Cb", "C__c", "UIState", "AABB", "Vec2D")
PRELUDE = """#![forbid(unsafe_code)]
#![allow(warnings)]
use gecs::prelude::*;
%s
trait Nm { const N: &'static str; }
%s
fn nm<T: Nm>(_: &T) -> String { T::N.to_string() }
trait En { fn en(&self) -> String; }
impl<A: Archetype> En for Entity<A> { fn en(&self) -> String { format!("E{}", self.archetype_id()) } }
impl En for EntityAny { fn en(&self) -> String { format!("EA{}", self.archetype_id()) } }
impl<A: Archetype> En for EntityDirect<A> { fn en(&self) -> String { format!("D{}", self.archetype_id()) } }
impl En for EntityDirectAny { fn en(&self) -> String { format!("DA{}", self.archetype_id()) } }
fn en<T: En>(x: &T) -> String { x.en() }
"""

def prelude():
    return PRELUDE % ("\n".join("pub struct %s(pub u32);" % c for c in POOL),
                      "\n".join("impl Nm for %s { const N: &'static str = \"%s\"; }" % (c, c) for c in POOL))

def closure_body(params, collect="out"):
    names = []
    for i, p in enumerate(params):
        names.append(("nm(p%d)" if p[0] in ("comp", "compmut", "oneof", "oneofmut") else "en(p%d)") % i)
    return "{ %s.push(format!(\"{}:{}\", <MatchedArchetype as Archetype>::ARCHETYPE_ID, vec![%s].join(\",\"))); }" % (collect, ", ".join(names))

def expected_visit(decl, m):
    ids = {a["name"]: i for i, a in enumerate(decl)}
    aid = ids[m["name"]]
    parts = []
    for t in m["types"]:
        ty = t[1]
        if ty.startswith("EntityDirect<"): parts.append("D%d" % aid)
        elif ty.startswith("Entity<"): parts.append("E%d" % aid)
        elif ty == "EntityAny": parts.append("EA%d" % aid)
        elif ty == "EntityDirectAny": parts.append("DA%d" % aid)
        else: parts.append(ty)
    return "%d:%s" % (aid, ",".join(parts))

def conflict_free(prog):
    """No archetype binds one column twice with a mutable access (that is a borrow error, C18)."""
    for m in prog["matched"]:
        cols = [(t[1], t[0]) for t in m["types"] if not t[1].startswith("Entity")]
        for c in set(x[0] for x in cols):
            acc = [x[1] for x in cols if x[0] == c]
            if len(acc) > 1 and "&mut" in acc:
                return False
    return True

def populate(decl, n=2):
    lines = []
    for a in decl:
        for k in range(n):
            lines.append("let e_%s_%d = world.create::<%s>((%s,));" % (a["name"], k, a["name"], ", ".join("%s(%d)" % (c, k) for c in a["cols"])))
    return "\n        ".join(lines)

def compile_run(src, gecs_rlib, deps, name, run=True, extra_cfg=()):
    d = os.path.join(BUILD, "e2e")
    os.makedirs(d, exist_ok=True)
    path = os.path.join(d, name + ".rs")
    with open(path, "w") as f:
        f.write(src)
    binp = os.path.join(d, name + ".bin")
    cmd = ["rustc", "--edition", "2021", "-L", "dependency=" + deps, "--extern", "gecs=" + gecs_rlib, path, "-o", binp]
    for c in extra_cfg:
        cmd += ["--cfg", c]
    if not run:
        cmd += ["--emit=metadata"]
        cmd[cmd.index("-o") + 1] = binp + ".rmeta"
    rc, out, dt = sh(cmd, timeout=600, check=False)
    res = {"rc": rc, "stderr": out}
    if rc == 0 and run:
        rc2, out2, dt2 = sh([binp], timeout=120, check=False)
        res["run_rc"] = rc2
        res["stdout"] = out2
    for p in (binp, binp + ".rmeta"):
        if os.path.exists(p):
            os.remove(p)
    if rc == 0 or os.environ.get("VERIF_KEEP_E2E") is None:
        try:
            os.remove(path)
        except OSError:
            pass
    return res

def e2e_ok_crate(decl, progs):
    """One crate for one declaration: every (program, macro) is run on a fresh world."""
    src = [prelude(), "ecs_world! { %s }" % render_world_body(decl), "fn main() {"]
    expect = []
    qi = 0
    for prog in progs:
        params = prog["params"]
        matched_names = [m["name"] for m in prog["matched"]]
        vis = {m["name"]: expected_visit(decl, m) for m in prog["matched"]}
        for mac in MACROS:
            body = closure_body(params)
            if mac in ("iter", "iter_borrow", "iter_destroy"):
                src.append("    { let mut world = EcsWorld::new(); %s\n        let mut out: Vec<String> = Vec::new();\n        ecs_%s!(world, |%s| %s);\n        println!(\"Q%d {}\", out.join(\";\")); }"
                           % (populate(decl), mac, render_params(params), body, qi))
                want = ";".join(vis[a["name"]] for a in decl if a["name"] in matched_names for _ in range(2))
                expect.append(("Q%d" % qi, want, prog, mac))
                qi += 1
            else:
                # find with a live entity of EVERY archetype, typed and dynamic, entity and direct keys
                lines = ["    { let mut world = EcsWorld::new(); %s\n        let mut res: Vec<String> = Vec::new();" % populate(decl)]
                wants = []
                for a in decl:
                    for keyexpr in ("e_%s_1" % a["name"], "e_%s_1.into_any()" % a["name"],
                                    "world.to_direct(e_%s_1).unwrap()" % a["name"], "world.to_direct(e_%s_1.into_any()).unwrap()" % a["name"]):
                        lines.append("        { let key = %s; let mut out: Vec<String> = Vec::new(); let r = ecs_%s!(world, key, |%s| %s); res.push(format!(\"{}/{}\", r.is_some(), out.join(\";\"))); }"
                                     % (keyexpr, mac, render_params(params), body))
                        wants.append("true/%s" % vis[a["name"]] if a["name"] in matched_names else "false/")
                lines.append("        println!(\"Q%d {}\", res.join(\"|\")); }" % qi)
                src.append("\n".join(lines))
                expect.append(("Q%d" % qi, "|".join(wants), prog, mac))
                qi += 1
    src.append("}")
    return "\n".join(src), expect

def e2e_err_crate(decl, prog, mac):
    body = "{ }"
    key = "let entity = e_%s_0;" % decl[0]["name"] if mac.startswith("find") else ""
    call = "ecs_%s!(%s)" % (mac, query_args(mac, prog["params"], body))
    return "\n".join([prelude(), "ecs_world! { %s }" % render_world_body(decl),
                      "fn main() { let mut world = EcsWorld::new(); %s\n %s\n let _ = %s; }" % (populate(decl, 1), key, call)])


def _kinds(prog):
    return tuple(sorted(set(p[0] for p in prog["params"])))

def mac_tags(mac):
    """a wrong matched set breaks C05, and with it what the loop macros promise about the entities they visit"""
    return ["C05"] + (["C06"] if mac in ("iter", "iter_borrow") else []) + (["C07"] if mac == "iter_destroy" else [])

def match_enum(tier, seed):
    key = key_of("match", repo_hash(), verif_hash(), tier, seed)
    c = cache_get("match", key)
    if c:
        c["cached"] = True
        return c
    t0 = time.time()
    rlib, deps = build_gecs((), False)
    lab = build_macrolab()
    # quick: all pairs of archetypes x lists of two parameters; three archetypes x single parameters;
    # component names that are prefixes of each other
    # "mixed": even-numbered archetypes declare their columns in reverse pool order
    confs = ([("Pool3", 2, 2, "mixed"), ("Pool3", 3, 1, "canon"), ("PoolP", 2, 1, "canon"), ("PoolS", 2, 1, "mixed"), ("PoolT", 2, 1, "mixed")] if tier == "quick"
             else [("Pool3", 3, 2, "mixed"), ("Pool3", 2, 2, "canon"), ("Pool4", 2, 2, "mixed"), ("PoolP", 2, 2, "canon"), ("PoolS", 2, 2, "mixed"), ("PoolT", 2, 2, "mixed")])
    progs, states, trans = [], 0, 0
    for pool, ma, mp, order in confs:
        items, st = tlc_lines("MatchMC", "SPECIFICATION Spec\nCONSTANTS\n  PoolSeq <- %s\n  MaxArch = %d\n  MaxParams = %d\n  ColOrder = \"%s\"\nINVARIANTS Sound Complete Export\nCHECK_DEADLOCK FALSE\n" % (pool, ma, mp, order), "PROG")
        progs += items
        states += st.get("distinct", 0)
        trans += st.get("generated", 0)
    violations = []
    # ---- every program through the real generators, all five macros
    reqs, index = [], []
    for pi, prog in enumerate(progs):
        body = render_world_body(prog["decl"])
        for mac in MACROS:
            reqs.append("Q\t%s\t%s\t\t%s\t" % (mac, body, query_args(mac, prog["params"])))
            index.append((pi, mac))
    chunks = 12
    per = (len(reqs) + chunks - 1) // chunks
    with ThreadPoolExecutor(max_workers=chunks) as ex:
        parts = list(ex.map(lambda i: run_lab(lab, reqs[i * per:(i + 1) * per]) if reqs[i * per:(i + 1) * per] else [], range(chunks)))
    results = [r for p in parts for r in p]
    unsafe_tokens = 0
    tokens_scanned = 0
    outcome_count = {}
    for (pi, mac), res in zip(index, results):
        prog = progs[pi]
        outcome_count[prog["outcome"]] = outcome_count.get(prog["outcome"], 0) + 1
        msg = lab_compare(prog, mac, res)
        if msg:
            violations.append({"tags": mac_tags(mac), "what": "ecs_%s!: %s" % (mac, msg), "at": pi,
                               "event": {"decl": prog["decl"], "params": prog["params"], "macro": mac, "expected": prog["outcome"], "generator": res},
                               "origin": {"engine": "match-lib"}})
        if res.get("unsafe", 0) > 0:
            unsafe_tokens += res["unsafe"]
            violations.append({"tags": ["C18"], "what": "generated query code contains the `unsafe` keyword", "at": pi,
                               "event": {"decl": prog["decl"], "params": prog["params"], "macro": mac}, "origin": {"engine": "match-lib"}})
        tokens_scanned += res.get("tokens", 0)
    # ---- stratified end-to-end sample: compiled under forbid(unsafe_code) and executed
    rnd = random.Random(seed)
    by_decl = {}
    for prog in progs:
        by_decl.setdefault(json.dumps(prog["decl"]), []).append(prog)
    decl_keys = sorted(by_decl)
    rnd.shuffle(decl_keys)
    n_decl = 8 if tier == "quick" else 40
    n_ok = 8 if tier == "quick" else 24
    chosen = decl_keys[:n_decl]
    # every spelling class of component identifiers is compiled and run, not only enumerated
    for fam in (("Ca_", "_Cb", "C__c"), ("UIState", "AABB", "Vec2D")):
        odd = [dk for dk in decl_keys if all(('"%s"' % nm) in dk for nm in fam) and len(json.loads(dk)) >= 2 and dk not in chosen]
        chosen += odd[:2 if tier == "quick" else 8]
    jobs = []
    err_jobs = []
    for dk in chosen:
        decl = json.loads(dk)
        oks = [p for p in by_decl[dk] if p["outcome"] == "ok" and conflict_free(p)]
        groups = {}
        for p in oks:
            groups.setdefault(_kinds(p), []).append(p)
        pick = []
        gk = sorted(groups)
        rnd.shuffle(gk)
        for g in gk:
            if len(pick) < n_ok:
                pick.append(rnd.choice(groups[g]))
        jobs.append((decl, pick))
        for cls in ("ambiguous", "nomatch"):
            errs = [p for p in by_decl[dk] if p["outcome"] == cls]
            if errs:
                err_jobs.append((decl, rnd.choice(errs), rnd.choice(MACROS)))
    e2e_programs = 0
    e2e_crates = 0
    samples = []
    def run_ok(job):
        decl, pick = job
        if not pick:
            return []
        src, expect = e2e_ok_crate(decl, pick)
        r = compile_run(src, rlib, deps, "c05ok_%s" % key_of(json.dumps(decl), seed)[:10])
        out = []
        if r["rc"] != 0:
            out.append({"tags": ["C05", "C18"], "what": "a query the model accepts failed to compile under forbid(unsafe_code): " + r["stderr"][-600:],
                        "at": 0, "event": {"decl": decl, "programs": [p["params"] for p in pick]}, "origin": {"engine": "match-e2e"}})
            return out
        got = dict(l.split(" ", 1) if " " in l else (l, "") for l in r.get("stdout", "").splitlines())
        for q, want, prog, mac in expect:
            if got.get(q, "<missing>").strip() != want:
                out.append({"tags": mac_tags(mac), "what": "ecs_%s! ran on %r, expected %r" % (mac, got.get(q, "<missing>"), want), "at": 0,
                            "event": {"decl": decl, "params": prog["params"], "macro": mac}, "origin": {"engine": "match-e2e"}})
        return [("n", len(expect))] + out
    def run_err(job):
        decl, prog, mac = job
        src = e2e_err_crate(decl, prog, mac)
        r = compile_run(src, rlib, deps, "c05err_%s" % key_of(json.dumps(decl), json.dumps(prog["params"]), mac)[:10], run=False)
        if r["rc"] == 0:
            return [{"tags": ["C05"], "what": "a query that must be rejected (%s) compiled" % prog["outcome"], "at": 0,
                     "event": {"decl": decl, "params": prog["params"], "macro": mac}, "origin": {"engine": "match-e2e"}}]
        if err_class(r["stderr"]) != prog["outcome"]:
            return [{"tags": ["C05"], "what": "rejected with another error than %s: %s" % (prog["outcome"], r["stderr"][-400:]), "at": 0,
                     "event": {"decl": decl, "params": prog["params"], "macro": mac}, "origin": {"engine": "match-e2e"}}]
        return []
    with ThreadPoolExecutor(max_workers=12) as ex:
        for res in ex.map(run_ok, jobs):
            for x in res:
                if isinstance(x, tuple):
                    e2e_programs += x[1]
                    e2e_crates += 1
                else:
                    violations.append(x)
        for res in ex.map(run_err, err_jobs):
            e2e_crates += 1
            e2e_programs += 1
            violations += res
    for p in progs[7::9973][:3]:
        samples.append({"decl": p["decl"], "params": p["params"], "expected": {"outcome": p["outcome"], "matched": p["matched"]}})
    res = {"engine": "match", "tier": tier, "seed": seed, "programs": len(progs), "generator_runs": len(reqs),
           "outcomes": outcome_count, "tokens_scanned": tokens_scanned, "unsafe_tokens": unsafe_tokens,
           "e2e_crates": e2e_crates, "e2e_programs": e2e_programs, "e2e_error_programs": len(err_jobs),
           "tlc_states": states, "tlc_transitions": trans, "traces": e2e_programs,
           "violations": cap_violations(violations), "n_violations": len(violations), "samples": samples,
           "wall_s": round(time.time() - t0, 1), "cached": False}
    cache_put("match", key, res)
    return res


# ============================================================================ ids (C15) and cfg (C16)

PRED = {1: "pa", 2: "pb", 3: "pc"}
ARCHN = ["Aa", "Ab", "Ac", "Ad"]
COMPN = ["Ca", "Cb", "Cc", "Cd"]
assert len(ARCHN) >= 4 and len(COMPN) >= 4

def pred_attrs(preds_flags, realise=None, asg=None):
    """cfg attributes for an item. realise None: symbolic names; 'const': cfg(all())/cfg(any())."""
    out = []
    for i, on in enumerate(preds_flags, start=1):
        if on:
            if realise == "const":
                out.append("#[cfg(%s)]" % ("all()" if asg[i - 1] else "any()"))
            else:
                out.append("#[cfg(%s)]" % PRED[i])
    return " ".join(out)

def first_appearance(items_preds):
    order = []
    for flags in items_preds:
        for i, on in enumerate(flags, start=1):
            if on and i not in order:
                order.append(i)
    return order

def ids_world_body(item, level, realise=None, twin=False):
    """Render an IDS item as archetypes (level 'arch') or as components of one archetype ('comp')."""
    asg = item["asg"]
    parts = []
    def deco(it):
        if twin:
            return ""
        return pred_attrs(it["preds"], realise, asg)
    def enabled(it):
        return all(asg[i] for i, on in enumerate(it["preds"]) if on)
    items = [it for it in item["items"] if (not twin or enabled(it))]
    if level == "arch":
        for i, it in enumerate(item["items"]):
            if twin and not enabled(it):
                continue
            idattr = "#[archetype_id(%d)]" % it["id"] if it["id"] >= 0 else ""
            parts.append("%s %s ecs_archetype!(%s, Ca);" % (deco(it), idattr, ARCHN[i]))
    else:
        comps = []
        for i, it in enumerate(item["items"]):
            if twin and not enabled(it):
                continue
            idattr = "#[component_id(%d)]" % it["id"] if it["id"] >= 0 else ""
            comps.append("%s %s %s" % (deco(it), idattr, COMPN[i]))
        parts.append("ecs_archetype!(Aa, %s);" % ", ".join(comps))
        if level == "comp2":
            # the same components again in a second archetype: the component counter restarts per archetype
            parts.append("ecs_archetype!(Ab, %s);" % ", ".join(comps))
    return " ".join(parts)

def ids_bools(item):
    order = first_appearance([it["preds"] for it in item["items"]])
    return ", ".join("true" if item["asg"][p - 1] else "false" for p in order)

def ids_expected(item, level):
    asg = item["asg"]
    en = [i for i, it in enumerate(item["items"]) if all(asg[j] for j, on in enumerate(it["preds"]) if on)]
    return en

def ids_compare(item, level, res):
    en = ids_expected(item, level)
    if not item["ok"]:
        if res["res"] != "err":
            return "expected compile error %s, declaration accepted" % item["err"]
        c = err_class(res["msg"])
        if any(x["id"] > 255 for x in item["items"]):
            return None   # an id literal that does not fit in 8 bits may be rejected while parsing, before any other rule
        return None if c == item["err"] else "expected error %s, got %s" % (item["err"], c)
    if res["res"] != "ok":
        return "expected ids %s, declaration rejected: %s" % (item["ids"], res.get("msg"))
    w = res["world"]
    if level == "arch":
        got = [(a["name"], a["id"]) for a in w["archs"]]
        want = [(ARCHN[i], item["ids"][k]) for k, i in enumerate(en)]
    else:
        got = [(c[0], c[1]) for c in w["archs"][0]["comps"]] if w["archs"] else []
        want = [(COMPN[i], item["ids"][k]) for k, i in enumerate(en)]
        if level == "comp2":
            got2 = [(c[0], c[1]) for c in w["archs"][1]["comps"]] if len(w["archs"]) > 1 else []
            if got2 != want:
                return "second archetype's component ids %s, expected %s (the counter restarts per archetype)" % (got2, want)
    return None if got == want else "ids %s, expected %s" % (got, want)

IDS_PRELUDE = """#![forbid(unsafe_code)]
#![allow(warnings)]
use gecs::prelude::*;
pub struct Ca(pub u32); pub struct Cb(pub u32); pub struct Cc(pub u32); pub struct Cd(pub u32);
"""

def ids_e2e_src(item, level, realise, twin):
    en = ids_expected(item, level)
    body = ids_world_body(item, level, realise, twin)
    lines = [IDS_PRELUDE, "ecs_world! { %s }" % body, "fn main() {", "    let mut world = EcsWorld::new();"]
    if item["ok"]:
        if level == "arch":
            for i in en:
                a = ARCHN[i]
                lines.append('    { let e = world.create::<%s>((Ca(1),)); let any: EntityAny = e.into();' % a)
                lines.append('      let sel = match SelectArchetype::try_from(any).unwrap() { SelectArchetype::%s => "%s", _ => "other" };' % (a, a))
                lines.append('      let sel_id = SelectArchetype::try_from(%s::ARCHETYPE_ID).unwrap().archetype_id();' % a)
                lines.append('      println!("%s {} {} {} {} {}", %s::ARCHETYPE_ID, e.archetype_id(), any.archetype_id(), sel, sel_id); }' % (a, a))
        else:
            vals = ", ".join("%s(1)" % COMPN[i] for i in en)
            lines.append("    let e = world.create::<Aa>((%s,));" % vals)
            for i in en:
                c = COMPN[i]
                lines.append('    println!("%s {} {}", <Aa as ArchetypeHas<%s>>::COMPONENT_ID, ecs_component_id!(%s, Aa));' % (c, c, c))
                # the one-argument form resolves against the archetype matched by the enclosing query
                lines.append('    ecs_iter!(world, |_x: &%s| { println!("%s-in-query {}", ecs_component_id!(%s)); });' % (c, c, c))
                # a const context and a const generic argument; the one-argument form inside the other four
                # query macros (typed key, dynamic key, runtime-borrowing, destroying loop that destroys
                # nothing), with the bare `_` parameter name the documentation uses
                lines.append('    { const K: u8 = ecs_component_id!(%s, Aa); struct G<const N: u8>; impl<const N: u8> G<N> { fn n(&self) -> u8 { N } }' % c)
                lines.append('      println!("%s-const {} {}", K, G::<{ ecs_component_id!(%s, Aa) }>.n()); }' % (c, c))
                lines.append('    ecs_find!(world, e, |_: &%s| { println!("%s-in-find {}", ecs_component_id!(%s)); });' % (c, c, c))
                lines.append('    { let any: EntityAny = e.into(); ecs_find_borrow!(world, any, |_: &%s| { println!("%s-in-findb {}", ecs_component_id!(%s)); }); }' % (c, c, c))
                lines.append('    ecs_iter_borrow!(world, |_: &%s| { println!("%s-in-iterb {}", ecs_component_id!(%s)); });' % (c, c, c))
                lines.append('    ecs_iter_destroy!(world, |_: &%s| { println!("%s-in-iterd {}", ecs_component_id!(%s)); });' % (c, c, c))
    lines.append("}")
    return "\n".join(lines)

def ids_e2e_expected(item, level):
    en = ids_expected(item, level)
    out = []
    for k, i in enumerate(en):
        v = item["ids"][k]
        if level == "arch":
            out.append("%s %d %d %d %s %d" % (ARCHN[i], v, v, v, ARCHN[i], v))
        else:
            out.append("%s %d %d" % (COMPN[i], v, v))
            out.append("%s-in-query %d" % (COMPN[i], v))
            out.append("%s-const %d %d" % (COMPN[i], v, v))
            for m in ("find", "findb", "iterb", "iterd"):
                out.append("%s-in-%s %d" % (COMPN[i], m, v))
    return "\n".join(out)

def ids_enum(tier, seed):
    """C15 + declaration half of C16."""
    key = key_of("ids", repo_hash(), verif_hash(), tier, seed)
    c = cache_get("ids", key)
    if c:
        c["cached"] = True
        return c
    t0 = time.time()
    rlib, deps = build_gecs((), False)
    lab = build_macrolab()
    # (id choices, max items, predicates): the main configuration, longer undecorated declarations with the
    # edge ids (successors of 127/128/254/255), and three distinct predicates on short declarations
    confs = [("IdsQuick", 3, "TwoPreds"), ("IdsEdge", 4, "NoPreds"), ("IdsTiny", 2, "ThreePreds")] if tier == "quick" else \
            [("IdsFull", 3, "TwoPreds"), ("IdsEdge", 4, "NoPreds"), ("IdsQuick", 3, "ThreePreds")]
    items, st = [], {"distinct": 0, "generated": 0}
    for choices, maxitems, preds in confs:
        its, st1 = tlc_lines("IdsMC", "SPECIFICATION Spec\nCONSTANTS\n  IdChoices <- %s\n  MaxItems = %d\n  Preds <- %s\nINVARIANTS RuleHolds ReduceEquivalent Export\nCHECK_DEADLOCK FALSE\n" % (choices, maxitems, preds), "IDS", timeout=6000)
        items += its
        st["distinct"] += st1.get("distinct", 0)
        st["generated"] += st1.get("generated", 0)
    violations = []
    reqs, index = [], []
    for ii, item in enumerate(items):
        for level in ("arch", "comp", "comp2"):
            if level != "arch" and not ids_expected(item, level):
                continue   # an archetype without components is not a declaration
            if level == "comp2" and (ii % 3 != 0 or len(item["items"]) > 3):
                continue
            reqs.append("W\t%s\t%s" % (ids_world_body(item, level), ids_bools(item)))
            index.append((ii, level, False))
            # the reduced twin through the same real code (C16: decorated == twin)
            reqs.append("W\t%s\t" % ids_world_body(item, level, twin=True) if ids_expected(item, level) or level == "arch" else "W\t\t")
            index.append((ii, level, True))
    chunks = 8
    per = (len(reqs) + chunks - 1) // chunks
    with ThreadPoolExecutor(max_workers=chunks) as ex:
        parts = list(ex.map(lambda i: run_lab(lab, reqs[i * per:(i + 1) * per]) if reqs[i * per:(i + 1) * per] else [], range(chunks)))
    results = [r for p in parts for r in p]
    # the same requests through the generators compiled WITHOUT debug assertions (the profile a release
    # build of a client compiles the proc-macro crate in): the outcome must be the same
    lab_nda = build_macrolab(debug_assertions=False)
    with ThreadPoolExecutor(max_workers=chunks) as ex:
        parts2 = list(ex.map(lambda i: run_lab(lab_nda, reqs[i * per:(i + 1) * per]) if reqs[i * per:(i + 1) * per] else [], range(chunks)))
    results2 = [r for p in parts2 for r in p]
    def _outcome(r):
        return (r.get("res"), err_class(r.get("msg", "")) if r.get("res") == "err" else "", json.dumps(r.get("world"), sort_keys=True))
    ndiff = 0
    for (ii, level, twin), r1, r2 in zip(index, results, results2):
        if _outcome(r1) != _outcome(r2):
            ndiff += 1
            if ndiff <= 40:
                violations.append({"tags": ["C19", "C15"], "what": "%s-level ids: the generators built without debug assertions decide differently: %s vs %s" % ("archetype" if level == "arch" else "component", _outcome(r2)[:2], _outcome(r1)[:2]),
                                   "at": ii, "event": {"items": items[ii]["items"], "asg": items[ii]["asg"], "with_debug_assertions": r1, "without": r2}, "origin": {"engine": "ids-lib-nda", "level": level, "twin": twin}})
    stats = {"ok": 0, "duplicate": 0, "exceeds": 0, "with_disabled": 0, "unsafe": 0, "tokens": 0, "compared_without_debug_assertions": len(results2), "differences": ndiff}
    for (ii, level, twin), res in zip(index, results):
        item = items[ii]
        if twin and not ids_expected(item, level):
            continue   # empty twin world: not a declaration (needs at least one archetype)
        msg = ids_compare(item, level, res)
        decorated = any(any(it["preds"]) for it in item["items"])
        if not twin:
            stats["ok" if item["ok"] else item["err"]] += 1
            if len(ids_expected(item, level)) < len(item["items"]):
                stats["with_disabled"] += 1
        stats["tokens"] += res.get("tokens", 0)
        if res.get("unsafe", 0):
            stats["unsafe"] += res["unsafe"]
            violations.append({"tags": ["C18"], "what": "generated world code contains the `unsafe` keyword", "at": ii,
                               "event": {"item": item}, "origin": {"engine": "ids-lib"}})
        if msg:
            tags = ["C16"] if (decorated and not twin) else ["C15"]
            if level == "arch" and not item["ok"] and item["err"] == "duplicate" and res.get("res") == "ok":
                tags = tags + ["C08", "C14"]   # two archetypes share an id: their handles collide and dispatch to the wrong one
            if decorated and not twin:
                # also C15 when the undecorated twin is wrong too; attribution by the twin's own entry
                pass
            violations.append({"tags": tags, "what": "%s-level ids%s: %s" % ("archetype" if level == "arch" else "component", " (reduced twin)" if twin else "", msg),
                               "at": ii, "event": {"items": item["items"], "asg": item["asg"], "expected": {"ok": item["ok"], "ids": item["ids"], "err": item["err"]}, "generator": res},
                               "origin": {"engine": "ids-lib", "level": level, "twin": twin}})
    # ---- end to end sample: compiled constants, created handles, Select*, compile errors; cfg realised
    #      with cfg(all())/cfg(any()) and with --cfg flags; decorated program and reduced twin
    rnd = random.Random(seed)
    pool_ok = [it for it in items if it["ok"] and ids_expected(it, "arch")]
    pool_err = [it for it in items if not it["ok"]]
    n_ok, n_err = (10, 6) if tier == "quick" else (60, 30)
    def interesting(it):
        ids = [x["id"] for x in it["items"]]
        return any(x >= 0 for x in ids) and len(ids) >= 2
    cand = [it for it in pool_ok if interesting(it)]
    sample_ok = rnd.sample(cand, min(n_ok, len(cand)))
    sample_err = rnd.sample(pool_err, min(n_err, len(pool_err)))
    jobs = []
    for it in sample_ok:
        for level in ("arch", "comp"):
            if level == "comp" and not ids_expected(it, level):
                continue
            jobs.append((it, level, "const", False))
            jobs.append((it, level, "flags", False))
            jobs.append((it, level, None, True))
    for it in sample_err:
        jobs.append((it, rnd.choice(["arch", "comp"]), "const", False))
    e2e = {"crates": 0, "ok": 0, "err": 0}
    def run_job(job):
        it, level, realise, twin = job
        src = ids_e2e_src(it, level, "const" if realise == "const" else None, twin)
        extra = []
        if realise == "flags":
            extra = [PRED[i + 1] for i, v in enumerate(it["asg"]) if v]
        name = "ids_%s" % key_of(json.dumps(it), level, realise, twin)[:12]
        r = compile_run(src, rlib, deps, name, run=it["ok"], extra_cfg=extra)
        tag_deco = any(any(x["preds"]) for x in it["items"]) and not twin
        tags = ["C16"] if tag_deco else ["C15"]
        ev = {"items": it["items"], "asg": it["asg"], "level": level, "realise": realise, "twin": twin}
        if it["ok"]:
            if r["rc"] != 0:
                return [{"tags": tags + ["C18"], "what": "declaration the model accepts failed to compile: " + r["stderr"][-500:], "at": 0, "event": ev, "origin": {"engine": "ids-e2e"}}]
            want = ids_e2e_expected(it, level)
            if r.get("stdout", "").strip() != want.strip():
                return [{"tags": tags, "what": "compiled ids differ: got %r expected %r" % (r.get("stdout", "").strip(), want), "at": 0, "event": ev, "origin": {"engine": "ids-e2e"}}]
            return []
        if r["rc"] == 0:
            return [{"tags": tags, "what": "declaration that must be rejected (%s) compiled" % it["err"], "at": 0, "event": ev, "origin": {"engine": "ids-e2e"}}]
        if err_class(r["stderr"]) != it["err"] and not any(x["id"] > 255 for x in it["items"]):
            return [{"tags": tags, "what": "rejected with another error than %s: %s" % (it["err"], r["stderr"][-300:]), "at": 0, "event": ev, "origin": {"engine": "ids-e2e"}}]
        return []
    with ThreadPoolExecutor(max_workers=12) as ex:
        for job, res in zip(jobs, ex.map(run_job, jobs)):
            e2e["crates"] += 1
            e2e["ok" if job[0]["ok"] else "err"] += 1
            violations += res
    samples = [{"items": it["items"], "asg": it["asg"], "expected": {"ok": it["ok"], "ids": it["ids"], "err": it["err"]}} for it in items[11::4001][:3]]
    res = {"engine": "ids", "tier": tier, "seed": seed, "programs": len(items), "generator_runs": len(reqs), "outcomes": stats,
           "e2e_crates": e2e["crates"], "e2e_ok": e2e["ok"], "e2e_err": e2e["err"], "traces": e2e["crates"],
           "tlc_states": st.get("distinct", 0), "tlc_transitions": st.get("generated", 0),
           "violations": cap_violations(violations), "n_violations": len(violations), "samples": samples,
           "wall_s": round(time.time() - t0, 1), "cached": False}
    cache_put("ids", key, res)
    return res


# ============================================================================ cfg on query parameters (C16)

def dp_preds(dp):
    """the predicates decorating a parameter, in the order the attributes are written (12 / 21: stacked)"""
    return {0: [], 12: [1, 2], 21: [2, 1]}.get(dp["pred"], [dp["pred"]])

def dp_enabled(item, dp):
    return all(item["asg"][q - 1] for q in dp_preds(dp))

def cfgq_pred_order(item):
    order = []
    for dp in item["dparams"]:
        for q in dp_preds(dp):
            if q not in order:
                order.append(q)
    return order

def cfgq_param_cfgs(item, realise=None):
    out = []
    for dp in item["dparams"]:
        if realise == "const":
            out.append(["all()" if item["asg"][q - 1] else "any()" for q in dp_preds(dp)])
        else:
            out.append([PRED[q] for q in dp_preds(dp)])
    return out

def cfgq_bools(item):
    return ", ".join("true" if item["asg"][p - 1] else "false" for p in cfgq_pred_order(item))

def cfgq_has_oneof_cfg(item):
    return any(dp_preds(dp) and dp["p"][0] in ("oneof", "oneofmut") for dp in item["dparams"])

def cfgq_compare(item, mac, res):
    """Generator output on the decorated query vs the outcome of the reduced twin."""
    exp = item["outcome"]
    if res["res"] == "err":
        c = err_class(res["msg"])
        return None if c == exp else "twin outcome %s, decorated query reports %s" % (exp, c)
    if res["res"] != "ok":
        return "generator %s" % res["res"]
    if exp != "ok":
        return "twin is rejected (%s), decorated query accepted" % exp
    blocks = res["blocks"]
    if mac.startswith("find"):
        blocks = blocks[0::2]
    enabled = [dp_enabled(item, dp) for dp in item["dparams"]]
    got = []
    for b in blocks:
        plist = [x for x in b[1].split(",") if ":" in x]
        if len(plist) != len(enabled):
            return "closure has %d parameters, query has %d" % (len(plist), len(enabled))
        got.append((b[0], [norm_type(x.split(":", 1)[1]) for x, en in zip(plist, enabled) if en]))
    want = [(m["name"], [norm_type(t[0] + " " + t[1]) if t[0] == "&mut" else norm_type(t[0] + t[1]) for t in m["types"]]) for m in item["matched"]]
    if [g[0] for g in got] != [w[0] for w in want]:
        return "acts on archetypes %s, twin on %s" % ([g[0] for g in got], [w[0] for w in want])
    for g, w in zip(got, want):
        if g[1] != w[1]:
            return "archetype %s: enabled parameters bound to %s, twin %s" % (g[0], g[1], w[1])
    return None

def cfgq_guard_lines(item):
    """Exclusive runtime-borrow guards on every column the reduced twin does not touch: a decorated
    query that behaves as if its disabled parameters had not been written cannot notice them."""
    pool = {c for a in item["decl"] for c in a["cols"]}
    touched = {m["name"]: {t[1] for t in m["types"] if t[1] in pool} for m in item["matched"]}
    lines = []
    for a in item["decl"]:
        for c in a["cols"]:
            if c not in touched.get(a["name"], set()):
                lines.append("    let _g_%s_%s = world.%s.borrow_slice_mut::<%s>();" % (a["name"].lower(), c.lower(), a["name"].lower(), c))
    return lines

def cfgq_e2e_src(item, mac, realise, twin, guarded=False):
    decl = item["decl"]
    if twin:
        params, cfgs = item["params"], None
    else:
        params, cfgs = [dp["p"] for dp in item["dparams"]], cfgq_param_cfgs(item, realise)
    # the closure body may only name enabled parameters
    names = []
    k = 0
    for i, dp in enumerate(item["dparams"]):
        en = dp_enabled(item, dp)
        if twin:
            if not en:
                continue
            idx = k
            k += 1
        else:
            idx = i
        if en:
            p = dp["p"]
            names.append(("nm(p%d)" if p[0] in ("comp", "compmut", "oneof", "oneofmut") else "en(p%d)") % idx)
    body = "{ out.push(format!(\"{}:{}\", <MatchedArchetype as Archetype>::ARCHETYPE_ID, vec![%s].join(\",\"))); }" % ", ".join(names) if names else \
           "{ out.push(format!(\"{}:\", <MatchedArchetype as Archetype>::ARCHETYPE_ID)); }"
    src = [prelude(), "ecs_world! { %s }" % render_world_body(decl), "fn main() {"]
    if mac.startswith("find"):
        src.append("    let mut world = EcsWorld::new(); %s\n    let mut res: Vec<String> = Vec::new();" % populate(decl))
        if guarded:
            src += cfgq_guard_lines(item)
        for a in decl:
            src.append("    { let key = e_%s_1.into_any(); let mut out: Vec<String> = Vec::new(); let r = ecs_%s!(world, key, |%s| %s); res.push(format!(\"{}/{}\", r.is_some(), out.join(\";\"))); }"
                       % (a["name"], mac, render_params(params, cfgs), body))
        src.append("    println!(\"{}\", res.join(\"|\"));")
    else:
        src.append("    let mut world = EcsWorld::new(); %s\n    let mut out: Vec<String> = Vec::new();" % populate(decl))
        if guarded:
            src += cfgq_guard_lines(item)
        src.append("    ecs_%s!(world, |%s| %s);\n    println!(\"{}\", out.join(\";\"));" % (mac, render_params(params, cfgs), body))
    src.append("}")
    return "\n".join(src)

def cfgq_e2e_expected(item, mac):
    decl = item["decl"]
    vis = {m["name"]: expected_visit(decl, m) for m in item["matched"]}
    if mac.startswith("find"):
        return "|".join(("true/%s" % vis[a["name"]]) if a["name"] in vis else "false/" for a in decl)
    return ";".join(vis[a["name"]] for a in decl if a["name"] in vis for _ in range(2))

def cfgq_enum(tier, seed):
    key = key_of("cfgq", repo_hash(), verif_hash(), tier, seed)
    c = cache_get("cfgq", key)
    if c:
        c["cached"] = True
        return c
    t0 = time.time()
    rlib, deps = build_gecs((), False)
    lab = build_macrolab()
    items, st = tlc_lines("MatchCfgMC", "SPECIFICATION Spec\nCONSTANTS\n  PoolSeq <- Pool3\n  MaxParams = 2\n  Preds <- TwoPreds\nINVARIANTS Export\nCHECK_DEADLOCK FALSE\n", "CFGQ")
    macs = MACROS
    reqs, index = [], []
    for ii, item in enumerate(items):
        body = render_world_body(item["decl"])
        params = [dp["p"] for dp in item["dparams"]]
        for mac in macs:
            reqs.append("Q\t%s\t%s\t\t%s\t%s" % (mac, body, query_args(mac, params, "{ }", cfgq_param_cfgs(item)), cfgq_bools(item)))
            index.append((ii, mac))
    # the cfg-probing chain of the query macros (independent of the assignment): one request per
    # distinct decorated parameter list and macro
    seen_chain = set()
    for ii, item in enumerate(items):
        params = [dp["p"] for dp in item["dparams"]]
        sig = json.dumps([item["decl"], item["dparams"]])
        if sig in seen_chain:
            continue
        seen_chain.add(sig)
        for mac in macs:
            reqs.append("CQ\t%s\t%s\t\t%s" % (mac, render_world_body(item["decl"]), query_args(mac, params, "{ }", cfgq_param_cfgs(item))))
            index.append((ii, "chain:" + mac))
    chunks = 12
    per = (len(reqs) + chunks - 1) // chunks
    with ThreadPoolExecutor(max_workers=chunks) as ex:
        parts = list(ex.map(lambda i: run_lab(lab, reqs[i * per:(i + 1) * per]) if reqs[i * per:(i + 1) * per] else [], range(chunks)))
    results = [r for p in parts for r in p]
    violations, known = [], []
    stats = {"decorated": 0, "some_disabled": 0, "all_disabled": 0, "known_L1": 0, "chains": 0,
             "stacked": sum(1 for it in items if any(len(dp_preds(dp)) > 1 for dp in it["dparams"]))}
    for (ii, mac), res in zip(index, results):
        item = items[ii]
        if mac.startswith("chain:"):
            stats["chains"] += 1
            order = cfgq_pred_order(item)
            msg = ("chain generation failed: %s" % res.get("msg")) if res["res"] != "ok" else chain_check(res["chain"], order, mac[6:])
            if msg:
                violations.append({"tags": ["C16"], "what": "cfg-probing macro chain of ecs_%s!: %s" % (mac[6:], msg), "at": ii,
                                   "event": {"decl": item["decl"], "dparams": item["dparams"], "generator": res}, "origin": {"engine": "cfgq-chain"}})
            continue
        n_dis = sum(1 for dp in item["dparams"] if not dp_enabled(item, dp))
        if any(dp_preds(dp) for dp in item["dparams"]):
            stats["decorated"] += 1
        if n_dis:
            stats["some_disabled"] += 1
        if n_dis == len(item["dparams"]):
            stats["all_disabled"] += 1
        msg = cfgq_compare(item, mac, res)
        if msg:
            v = {"tags": ["C16"], "what": "ecs_%s!: %s" % (mac, msg), "at": ii,
                 "event": {"decl": item["decl"], "dparams": item["dparams"], "asg": item["asg"], "macro": mac, "twin": {"params": item["params"], "outcome": item["outcome"]}, "generator": res},
                 "origin": {"engine": "cfgq-lib"}}
            if cfgq_has_oneof_cfg(item) and res["res"] == "err" and err_class(res["msg"]) == "oneof_cfg":
                v["known"] = "cfg-on-oneof"
                stats["known_L1"] += 1
                known.append(v)
            else:
                violations.append(v)
    # ---- end to end: decorated program, realised both ways, and its reduced twin
    rnd = random.Random(seed)
    cand = [it for it in items if it["outcome"] == "ok" and not cfgq_has_oneof_cfg(it) and any(dp_preds(dp) for dp in it["dparams"])
            and conflict_free({"matched": it["matched"]})]
    # disabled params may name columns twice etc.; keep programs whose decorated form is also conflict free
    def deco_ok(it):
        cols = [dp["p"][1] for dp in it["dparams"] if dp["p"][0] in ("comp", "compmut")]
        return len(cols) == len(set(cols))
    cand = [it for it in cand if deco_ok(it)]
    n = 10 if tier == "quick" else 60
    sample = rnd.sample(cand, min(n, len(cand)))
    jobs = []
    for it in sample:
        mac = rnd.choice(MACROS)
        jobs += [(it, mac, "const", False, False), (it, mac, "flags", False, False), (it, mac, None, True, False)]
    # the runtime-borrowing macros under exclusive guards on everything the twin does not touch:
    # programs with a disabled component parameter whose column exists in a matched archetype
    def hidden_col(it):
        for dp in it["dparams"]:
            if not dp_enabled(it, dp) and dp["p"][0] in ("comp", "compmut"):
                if any(dp["p"][1] in a["cols"] for a in it["decl"] if any(m["name"] == a["name"] for m in it["matched"])):
                    return True
        return False
    cand_g = [it for it in cand if hidden_col(it)]
    for it in rnd.sample(cand_g, min(6 if tier == "quick" else 40, len(cand_g))):
        for mac in ("iter_borrow", "find_borrow"):
            jobs += [(it, mac, "const", False, True), (it, mac, None, True, True)]
    stats["guarded_e2e"] = sum(1 for j in jobs if j[4])
    e2e = 0
    def run_job(job):
        it, mac, realise, twin, guarded = job
        src = cfgq_e2e_src(it, mac, "const" if realise == "const" else None, twin, guarded)
        extra = [PRED[i + 1] for i, v in enumerate(it["asg"]) if v] if realise == "flags" else []
        r = compile_run(src, rlib, deps, "cfgq_%s" % key_of(json.dumps(it), mac, realise, twin, guarded)[:12], extra_cfg=extra)
        ev = {"decl": it["decl"], "dparams": it["dparams"], "asg": it["asg"], "macro": mac, "realise": realise, "twin": twin, "guarded": guarded}
        if r["rc"] != 0:
            tags = ["C16", "C11"] if guarded and not twin else (["C11"] if guarded else ["C16"])
            return [{"tags": tags, "what": "program failed to compile or run%s: %s" % (" under exclusive guards on the columns its reduced twin does not touch" if guarded else "", r["stderr"][-500:]),
                     "at": 0, "event": ev, "origin": {"engine": "cfgq-e2e"}}]
        want = cfgq_e2e_expected(it, mac)
        if r.get("stdout", "").strip() != want:
            return [{"tags": (["C16"] if not twin else ["C05"]) + (["C11"] if guarded else []),
                     "what": "ran on %r, twin/model expects %r%s" % (r.get("stdout", "").strip()[-400:], want, " (under exclusive guards on the columns the reduced twin does not touch)" if guarded else ""),
                     "at": 0, "event": ev, "origin": {"engine": "cfgq-e2e"}}]
        return []
    with ThreadPoolExecutor(max_workers=12) as ex:
        for res in ex.map(run_job, jobs):
            e2e += 1
            violations += res
    samples = [{"decl": it["decl"], "dparams": it["dparams"], "asg": it["asg"], "twin": it["params"], "outcome": it["outcome"]} for it in items[5::7001][:3]]
    res = {"engine": "cfgq", "tier": tier, "seed": seed, "programs": len(items), "generator_runs": len(reqs), "stats": stats,
           "e2e_crates": e2e, "traces": e2e, "tlc_states": st.get("distinct", 0), "tlc_transitions": st.get("generated", 0),
           "violations": cap_violations(violations), "n_violations": len(violations), "known": known[:3], "n_known": len(known),
           "samples": samples, "wall_s": round(time.time() - t0, 1), "cached": False}
    cache_put("cfgq", key, res)
    return res


# ============================================================================ client corpus (C18)

CLIENT_PRELUDE = """#![forbid(unsafe_code)]
#![allow(warnings)]
use gecs::prelude::*;
#[derive(Clone)] pub struct Ca(pub u32);
#[derive(Clone)] pub struct Cb(pub u32);
ecs_world! { ecs_archetype!(Aa, Ca, Cb); ecs_archetype!(Ab, Cb); }
"""
HOLDER = {  # name: (acquire, use, release)
    "view": ("let h = world.view(e).unwrap();", "let _x = h.ca.0;", "drop(h);"),
    "viewcomp": ("let mut v = world.view(e).unwrap(); let h = v.component_mut::<Ca>();", "h.0 += 1;", "drop(v);"),
    "borrow": ("let h = world.borrow(e).unwrap();", "let _x = h.component::<Ca>().0;", "drop(h);"),
    "refc": ("let b = world.borrow(e).unwrap(); let h = b.component::<Ca>();", "let _x = h.0;", "drop(h); drop(b);"),
    "refmut": ("let b = world.borrow(e).unwrap(); let mut h = b.component_mut::<Ca>();", "h.0 += 1;", "drop(h); drop(b);"),
    "iteritem": ("let mut it = world.aa.iter(); let h = it.next().unwrap();", "let _x = (h.1).0;", "drop(it);"),
    "itermut": ("let mut it = world.aa.iter_mut(); let h = it.next().unwrap();", "(h.1).0 += 1;", "drop(it);"),
    "slice": ("let h = world.aa.get_slice::<Ca>();", "let _x = h[0].0;", ""),
    "slicemut": ("let h = world.aa.get_slice_mut::<Ca>();", "h[0].0 += 1;", ""),
    "slices": ("let h = world.aa.get_all_slices_mut();", "let _x = h.ca[0].0;", "drop(h);"),
    "entities": ("let h = world.aa.entities();", "let _x = h.len();", ""),
    "bslice": ("let h = world.aa.borrow_slice::<Ca>();", "let _x = h[0].0;", "drop(h);"),
    "archref": ("let h = world.archetype::<Aa>();", "let _x = h.len();", ""),
    "archmut": ("let h = world.archetype_mut::<Aa>();", "let _x = h.len();", ""),
    "bentity": ("let b = world.borrow(e).unwrap(); let h = b.entity();", "let _x = h.archetype_id();", "drop(b);"),
    "viewent": ("let v = world.view(e).unwrap(); let h = v.entity;", "let _x = h.archetype_id();", "drop(v);"),
    "bslicemut": ("let mut h = world.aa.borrow_slice_mut::<Ca>();", "h[0].0 += 1;", "drop(h);"),
    "entrefany": ("let h: &EntityAny = (&world.aa.entities()[0]).into();", "let _x = h.archetype_id();", ""),
    "entsel": ("let h: &Entity<Aa> = &world.aa.entities()[0];", "let _x = SelectEntity::from(h);", ""),
}
INTRUDER = {
    "create": "world.create::<Aa>((Ca(3), Cb(4)));",
    "createwc": "let _r = world.create_within_capacity::<Aa>((Ca(3), Cb(4)));",
    "destroy": "world.destroy(e2);",
    "destroyany": "world.destroy(e2.into_any());",
    "view2": "let _v = world.view(e2).map(|v| v.ca.0);",
    "iterq": "ecs_iter!(world, |c: &mut Ca| { c.0 += 1; });",
    "iterdq": "ecs_iter_destroy!(world, |c: &Cb| { if c.0 == 77 { EcsStepDestroy::ContinueDestroy } else { EcsStepDestroy::Continue } });",
    "clone": "let _c = world.clone();",
    "contains": "let _b = world.contains(e2);",
    "len": "let _n = world.aa.len();",
    "iterbq": "ecs_iter_borrow!(world, |c: &Cb| { let _ = c.0; });",
    "slice2": "let _s = world.aa.get_slice::<Cb>().len();",
    "slicemut2": "world.aa.get_slice_mut::<Cb>()[0].0 += 1;",
    "slices2": "let _s = world.aa.get_all_slices_mut().cb.len();",
    "bslice2": "let _s = world.aa.borrow_slice::<Cb>().len();",
    "findq": "let _f = ecs_find!(world, e2, |c: &mut Cb| { c.0 += 1; });",
    "findbq": "let _f = ecs_find_borrow!(world, e2, |c: &Cb| -> u32 { c.0 });",
    "todirect": "let _d = world.to_direct(e2);",
}

REJECTION_FAMILY = ["E0499", "E0502", "E0503", "E0505", "E0506", "E0507", "E0515", "E0521", "E0596", "E0597", "E0700", "E0712", "E0713", "E0716",
                    "E0277", "E0271", "E0308", "E0106", "E0621", "E0623", "lifetime may not live long enough", "mut entity access is forbidden",
                    "unsafe_code", "usage of an `unsafe` block", "borrowed value does not live long enough"]

def client_src(p):
    acq, use, rel = HOLDER[p["h"]]
    intr = INTRUDER[p["i"]]
    body = [acq, intr, use, rel] if p["order"] == "overlap" else [acq, use, rel, intr]
    return CLIENT_PRELUDE + "fn main() {\n    let mut world = EcsWorld::new();\n    let e = world.create::<Aa>((Ca(1), Cb(2)));\n    let e2 = world.create::<Aa>((Ca(5), Cb(6)));\n    " + "\n    ".join(x for x in body if x) + "\n}\n"

# hand-written corpus of minimal unsound programs, each with a sound twin: (name, forbidden body, twin body, error classes)
SPECIAL_PRELUDE = CLIENT_PRELUDE + "pub struct NotSend(pub std::rc::Rc<u32>);\nmod w2 { use super::*; ecs_world! { ecs_name!(RcWorld); ecs_archetype!(Ar, NotSend); } }\nfn assert_send<T: Send>() {}\nfn assert_sync<T: Sync>() {}\nfn assert_copy<T: Copy>() {}\n"
SPECIALS = [
 ("create_inside_iter", "ecs_iter!(world, |c: &Ca| { world.create::<Aa>((Ca(c.0), Cb(0))); });", "let mut n = 0; ecs_iter!(world, |c: &Ca| { n += c.0; }); world.create::<Aa>((Ca(n), Cb(0)));", ["E0499", "E0502", "E0500"]),
 ("destroy_inside_iter_borrow", "ecs_iter_borrow!(world, |e: &Entity<Aa>| { world.destroy(*e); });", "let mut v = Vec::new(); ecs_iter_borrow!(world, |e: &Entity<Aa>| { v.push(*e); }); for e in v { world.destroy(e); }", ["E0502", "E0500", "E0596"]),
 ("two_mut_same_component", "ecs_iter!(world, |a: &mut Ca, b: &mut Ca| { a.0 += b.0; });", "ecs_iter!(world, |a: &mut Ca, b: &mut Cb| { a.0 += b.0; });", ["E0499"]),
 ("mut_and_shared_same_component", "ecs_find!(world, e, |a: &mut Ca, b: &Ca| { a.0 += b.0; });", "ecs_find!(world, e, |a: &mut Ca, b: &Cb| { a.0 += b.0; });", ["E0502", "E0499"]),
 ("mut_entity_param", "ecs_iter!(world, |e: &mut Entity<Aa>| { });", "ecs_iter!(world, |e: &Entity<Aa>| { });", ["mut entity access is forbidden"]),
 ("mut_entity_any_param", "ecs_find_borrow!(world, e, |x: &mut EntityAny| { });", "ecs_find_borrow!(world, e, |x: &EntityAny| { });", ["mut entity access is forbidden"]),
 ("smuggle_component_ref", "let mut keep: Option<&Ca> = None; ecs_iter!(world, |c: &Ca| { keep = Some(c); }); world.create::<Aa>((Ca(9), Cb(9))); let _x = keep.unwrap().0;", "let mut keep: Option<u32> = None; ecs_iter!(world, |c: &Ca| { keep = Some(c.0); }); world.create::<Aa>((Ca(9), Cb(9))); let _x = keep.unwrap();", ["E0521", "E0499", "E0502", "E0597", "E0506"]),
 ("smuggle_find_ref", "let r: &Ca = ecs_find!(world, e, |c: &Ca| -> &Ca { c }).unwrap(); world.destroy(e); let _x = r.0;", "let r: u32 = ecs_find!(world, e, |c: &Ca| -> u32 { c.0 }).unwrap(); world.destroy(e); let _x = r;", ["E0521", "E0499", "E0502", "E0597", "E0506", "lifetime may not live long enough", "E0106"]),
 ("world_shared_across_threads", "std::thread::scope(|s| { s.spawn(|| { let _n = world.aa.len(); }); });", "std::thread::scope(|s| { s.spawn(move || { let w = world; let _n = w.aa.len(); }); });", ["E0277"]),
 ("world_is_sync", "assert_sync::<EcsWorld>();", "assert_send::<EcsWorld>();", ["E0277"]),
 ("archetype_is_sync", "assert_sync::<Aa>();", "assert_send::<Aa>();", ["E0277"]),
 ("rc_world_is_send", "assert_send::<w2::RcWorld>();", "assert_send::<EcsWorld>();", ["E0277"]),
 ("rc_world_moved_to_thread", "let w = w2::RcWorld::new(); std::thread::spawn(move || { let _w = w; });", "let w = EcsWorld::new(); std::thread::spawn(move || { let _w = w; });", ["E0277"]),
 ("view_outlives_world", "let v = { let mut w = EcsWorld::new(); let e = w.create::<Aa>((Ca(1), Cb(2))); w.view(e).unwrap() }; let _x = v.ca.0;", "let mut w = EcsWorld::new(); let e = w.create::<Aa>((Ca(1), Cb(2))); let v = w.view(e).unwrap(); let _x = v.ca.0;", ["E0597", "E0515", "E0505"]),
 ("slice_outlives_world", "let s = { let mut w = EcsWorld::new(); w.create::<Aa>((Ca(1), Cb(2))); w.aa.get_slice::<Ca>() }; let _x = s.len();", "let mut w = EcsWorld::new(); w.create::<Aa>((Ca(1), Cb(2))); let s = w.aa.get_slice::<Ca>(); let _x = s.len();", ["E0597", "E0515", "E0505", "E0716"]),
 ("iter_outlives_world", "let it = { let mut w = EcsWorld::new(); w.create::<Aa>((Ca(1), Cb(2))); w.aa.iter().next().map(|x| x.1) }; let _x = it.map(|c| c.0);", "let mut w = EcsWorld::new(); w.create::<Aa>((Ca(1), Cb(2))); let it = w.aa.iter().next().map(|x| x.1); let _x = it.map(|c| c.0);", ["E0597", "E0515", "E0505", "E0716"]),
 ("unsafe_in_client_closure", "ecs_iter!(world, |c: &Ca| { let p = c as *const Ca; let _x = unsafe { (*p).0 }; });", "ecs_iter!(world, |c: &Ca| { let _x = c.0; });", ["unsafe_code", "usage of an `unsafe` block"]),
 ("iter_borrow_while_mut_view", "let v = world.view(e).unwrap(); ecs_iter_borrow!(world, |c: &Cb| { let _ = c.0; }); let _x = v.ca.0;", "let v = world.view(e).unwrap(); let _x = v.ca.0; ecs_iter_borrow!(world, |c: &Cb| { let _ = c.0; });", ["E0502"]),
 ("wrong_archetype_typed_key", "let e3 = world.create::<Ab>((Cb(1),)); let _v = world.view::<Aa, _>(e3);", "let e3 = world.create::<Aa>((Ca(1), Cb(1))); let _v = world.view::<Aa, _>(e3);", ["E0277", "E0308", "E0271"]),
]
# receiver types: everything that changes or hands out mutable access must need `&mut`: through a
# shared reference it must be rejected (E0596), through `&mut` the twin compiles
for _n, _bad, _good in [
    ("create", "r.create::<Aa>((Ca(3), Cb(4)));", "m.create::<Aa>((Ca(3), Cb(4)));"),
    ("create_within", "let _ = r.create_within_capacity::<Aa>((Ca(3), Cb(4)));", "let _ = m.create_within_capacity::<Aa>((Ca(3), Cb(4)));"),
    ("destroy", "r.destroy(e2);", "m.destroy(e2);"),
    ("destroy_any", "r.destroy(e2.into_any());", "m.destroy(e2.into_any());"),
    ("view", "let _ = r.view(e).map(|v| v.ca.0);", "let _ = m.view(e).map(|v| v.ca.0);"),
    ("archetype_mut", "let _ = r.archetype_mut::<Aa>().len();", "let _ = m.archetype_mut::<Aa>().len();"),
    ("arch_create_via_archetype", "r.archetype::<Aa>().create((Ca(3), Cb(4)));", "m.archetype_mut::<Aa>().create((Ca(3), Cb(4)));"),
    ("arch_iter_mut", "for x in r.aa.iter_mut() { (x.1).0 += 1; }", "for x in m.aa.iter_mut() { (x.1).0 += 1; }"),
    ("arch_iter", "for x in r.aa.iter() { let _ = (x.1).0; }", "for x in m.aa.iter() { let _ = (x.1).0; }"),
    ("get_slice_mut", "r.aa.get_slice_mut::<Ca>()[0].0 += 1;", "m.aa.get_slice_mut::<Ca>()[0].0 += 1;"),
    ("get_slice", "let _ = r.aa.get_slice::<Ca>()[0].0;", "let _ = m.aa.get_slice::<Ca>()[0].0;"),
    ("get_all_slices_mut", "r.aa.get_all_slices_mut().ca[0].0 += 1;", "m.aa.get_all_slices_mut().ca[0].0 += 1;"),
    ("arch_view", "let _ = r.aa.view(e).map(|v| v.ca.0);", "let _ = m.aa.view(e).map(|v| v.ca.0);"),
    ("arch_destroy", "let _ = r.aa.destroy(e2).is_some();", "let _ = m.aa.destroy(e2).is_some();"),
    ("ecs_iter", "ecs_iter!(r, |c: &Ca| { let _ = c.0; });", "ecs_iter!(m, |c: &Ca| { let _ = c.0; });"),
    ("ecs_find", "let _ = ecs_find!(r, e, |c: &Ca| -> u32 { c.0 });", "let _ = ecs_find!(m, e, |c: &Ca| -> u32 { c.0 });"),
    ("ecs_iter_destroy", "ecs_iter_destroy!(r, |c: &Ca| { let _ = c.0; });", "ecs_iter_destroy!(m, |c: &Ca| { let _ = c.0; });"),
]:
    SPECIALS.append(("recv_" + _n, "let r = &world; " + _bad, "let m = &mut world; " + _good, ["E0596"]))
# `&mut` on an entity-handle parameter is forbidden in every macro, for every handle kind
for _mac, _call in [("find", "ecs_find!(world, e, |x: %s| { });"), ("find_borrow", "ecs_find_borrow!(world, e, |x: %s| { });"),
                    ("iter", "ecs_iter!(world, |x: %s| { });"), ("iter_borrow", "ecs_iter_borrow!(world, |x: %s| { });"),
                    ("iter_destroy", "ecs_iter_destroy!(world, |x: %s| { });")]:
    for _k, _ty in [("ent", "Entity<Aa>"), ("wild", "Entity<_>"), ("any", "EntityAny"), ("dir", "EntityDirect<Aa>"), ("dwild", "EntityDirect<_>"), ("dany", "EntityDirectAny")]:
        SPECIALS.append(("mutparam_%s_%s" % (_mac, _k), _call % ("&mut " + _ty), _call % ("&" + _ty), ["mut entity access is forbidden"]))
SPECIALS += [
 ("ref_conv_entity_outlives", "let r: &EntityAny = { let x = e; (&x).into() }; let _x = r.archetype_id();", "let x = e; let r: &EntityAny = (&x).into(); let _x = r.archetype_id();", ["E0597", "E0515", "E0716"]),
 ("ref_conv_direct_outlives", "let r: &EntityDirectAny = { let d = world.to_direct(e).unwrap(); (&d).into() }; let _x = r.archetype_id();", "let d = world.to_direct(e).unwrap(); let r: &EntityDirectAny = (&d).into(); let _x = r.archetype_id();", ["E0597", "E0515", "E0716"]),
 ("ref_conv_entity_mut_outlives", "let r: &mut EntityAny = { let mut x = e; (&mut x).into() }; let _x = r.archetype_id();", "let mut x = e; let r: &mut EntityAny = (&mut x).into(); let _x = r.archetype_id();", ["E0597", "E0515", "E0716"]),
 ("ref_conv_direct_mut_outlives", "let r: &mut EntityDirectAny = { let mut d = world.to_direct(e).unwrap(); (&mut d).into() }; let _x = r.archetype_id();", "let mut d = world.to_direct(e).unwrap(); let r: &mut EntityDirectAny = (&mut d).into(); let _x = r.archetype_id();", ["E0597", "E0515", "E0716"]),
 ("ref_conv_static", "fn keep(e: &Entity<Aa>) -> &'static EntityAny { e.into() } let _x = keep(&e).archetype_id();", "fn keep(e: &Entity<Aa>) -> &EntityAny { e.into() } let _x = keep(&e).archetype_id();", ["lifetime may not live long enough", "E0621", "E0759", "E0521", "E0312"]),
 ("entities_outlive_world", "let s = { let mut w = EcsWorld::new(); w.create::<Aa>((Ca(1), Cb(2))); w.aa.entities() }; let _x = s.len();", "let mut w = EcsWorld::new(); w.create::<Aa>((Ca(1), Cb(2))); let s = w.aa.entities(); let _x = s.len();", ["E0597", "E0515", "E0505", "E0716"]),
 ("borrow_entity_outlives_world", "let h = { let mut w = EcsWorld::new(); let e = w.create::<Aa>((Ca(1), Cb(2))); let b = w.borrow(e).unwrap(); *b.entity() }; let r: &Entity<Aa> = { let mut w = EcsWorld::new(); let e = w.create::<Aa>((Ca(1), Cb(2))); let b = w.borrow(e).unwrap(); b.entity() }; let _x = r.archetype_id();", "let mut w = EcsWorld::new(); let e = w.create::<Aa>((Ca(1), Cb(2))); let b = w.borrow(e).unwrap(); let r: &Entity<Aa> = b.entity(); let _x = r.archetype_id();", ["E0597", "E0515", "E0505", "E0716"]),
 ("view_component_outlives_view", "let r: &mut Ca = { let mut v = world.view(e).unwrap(); v.component_mut::<Ca>() }; world.destroy(e); r.0 += 1;", "{ let mut v = world.view(e).unwrap(); let r: &mut Ca = v.component_mut::<Ca>(); r.0 += 1; } world.destroy(e);", ["E0597", "E0515", "E0505", "E0716", "E0499", "E0502"]),
 ("borrow_slice_guard_outlives_world", "let g = { let mut w = EcsWorld::new(); w.create::<Aa>((Ca(1), Cb(2))); w.aa.borrow_slice::<Ca>() }; let _x = g.len();", "let mut w = EcsWorld::new(); w.create::<Aa>((Ca(1), Cb(2))); let g = w.aa.borrow_slice::<Ca>(); let _x = g.len();", ["E0597", "E0515", "E0505", "E0716"]),
 ("two_views_same_entity", "let a = world.view(e).unwrap(); let b = world.view(e).unwrap(); a.ca.0 += 1; b.ca.0 += 1;", "{ let a = world.view(e).unwrap(); a.ca.0 += 1; } { let b = world.view(e).unwrap(); b.ca.0 += 1; }", ["E0499"]),
 ("iter_item_across_destroy", "let first = world.aa.iter().next().map(|x| x.1).unwrap(); world.destroy(e2); let _x = first.0;", "let first = world.aa.iter().next().map(|x| (x.1).0).unwrap(); world.destroy(e2); let _x = first;", ["E0499", "E0502"]),
]
POSITIVES = [  # must compile: handles are Copy + Send + Sync whatever the component types are
 ("handles_autotraits", "assert_send::<Entity<w2::Ar>>(); assert_sync::<Entity<w2::Ar>>(); assert_copy::<Entity<w2::Ar>>(); assert_send::<EntityDirect<w2::Ar>>(); assert_sync::<EntityDirect<w2::Ar>>(); assert_copy::<EntityDirect<w2::Ar>>(); assert_send::<EntityAny>(); assert_sync::<EntityAny>(); assert_copy::<EntityAny>(); assert_send::<EntityDirectAny>(); assert_sync::<EntityDirectAny>(); assert_copy::<EntityDirectAny>();"),
 ("world_send_when_components_send", "assert_send::<EcsWorld>(); assert_send::<Aa>(); let w = EcsWorld::new(); std::thread::spawn(move || { let _w = w; }).join().unwrap();"),
 ("cross_archetype_nested_mutability", "ecs_iter_borrow!(world, |a: &mut Ca| { a.0 += 1; ecs_iter_borrow!(world, |e: &Entity<Ab>, b: &mut Cb| { b.0 += 1; }); });"),
]

AUTO_COMP = {"both": "u32", "sendonly": "std::cell::Cell<u32>", "synconly": "std::sync::MutexGuard<'static, u32>", "neither": "std::rc::Rc<u32>"}
AUTO_SUBJ = {"world": "aw::TWorld", "archetype": "aw::Ta", "entity": "Entity<aw::Ta>", "direct": "EntityDirect<aw::Ta>"}

def autotrait_src(item):
    if item["subject"] in ("iter", "itermut", "view", "borrowobj"):
        expr = {"iter": "world.ta.iter()", "itermut": "world.ta.iter_mut()", "view": "world.view(e).unwrap()", "borrowobj": "world.borrow(e).unwrap()"}[item["subject"]]
        return ("#![forbid(unsafe_code)]\n#![allow(warnings)]\nuse gecs::prelude::*;\npub struct Comp(pub %s);\n"
                "mod aw { use super::*; ecs_world! { ecs_name!(TWorld); ecs_archetype!(Ta, Comp); } }\nuse aw::*;\n"
                "fn assert_send<T: Send>(_: &T) {}\nfn assert_sync<T: Sync>(_: &T) {}\nfn assert_copy<T: Copy>(_: &T) {}\n"
                "fn run(mut world: TWorld, e: Entity<Ta>) { let x = %s; assert_%s(&x); }\nfn main() {}\n"
                % (AUTO_COMP[item["class"]], expr, item["trait"].lower()))
    return ("#![forbid(unsafe_code)]\n#![allow(warnings)]\nuse gecs::prelude::*;\npub struct Comp(pub %s);\n"
            "mod aw { use super::*; ecs_world! { ecs_name!(TWorld); ecs_archetype!(Ta, Comp); } }\n"
            "fn assert_send<T: Send>() {}\nfn assert_sync<T: Sync>() {}\nfn assert_copy<T: Copy>() {}\n"
            "fn main() { assert_%s::<%s>(); }\n" % (AUTO_COMP[item["class"]], item["trait"].lower(), AUTO_SUBJ[item["subject"]]))

def special_src(body):
    return SPECIAL_PRELUDE + "fn main() {\n    let mut world = EcsWorld::new();\n    let e = world.create::<Aa>((Ca(1), Cb(2)));\n    let e2 = world.create::<Aa>((Ca(5), Cb(6)));\n    " + body + "\n}\n"

def client_corpus(tier, seed):
    key = key_of("client", repo_hash(), verif_hash(), tier)
    c = cache_get("client", key)
    if c:
        c["cached"] = True
        return c
    t0 = time.time()
    rlib, deps = build_gecs((), False)
    items, st = tlc_lines("ClientMC", "SPECIFICATION Spec\nINVARIANTS TwinCompiles Export\nCHECK_DEADLOCK FALSE\n", "CLIENT", workers=1)
    violations = []
    jobs = []
    for p in items:
        jobs.append(("pair", p, client_src(p), p["compiles"], [p["err"]] if p["err"] else []))
    for name, bad, twin, errs in SPECIALS:
        jobs.append(("special", {"name": name, "role": "forbidden"}, special_src(bad), False, errs))
        jobs.append(("special", {"name": name, "role": "twin"}, special_src(twin), True, []))
    for name, body in POSITIVES:
        jobs.append(("positive", {"name": name}, special_src(body), True, []))
    autos, st2 = tlc_lines("AutoTraitMC", "SPECIFICATION Spec\nINVARIANTS Export\nCHECK_DEADLOCK FALSE\n", "AUTOTRAIT", workers=1)
    for it in autos:
        must = it.get("must", "compile" if it["holds"] else "reject")
        if must == "any":
            continue
        jobs.append(("autotrait", it, autotrait_src(it), must == "compile", [] if must == "compile" else ["E0277"]))
    counts = {"forbidden": 0, "allowed": 0}
    def run(job):
        kind, desc, src, compiles, errs = job
        r = compile_run(src, rlib, deps, "cl_%s" % key_of(src)[:14], run=False)
        ok = r["rc"] == 0
        if compiles and not ok:
            return [{"tags": ["C18"], "what": "a sound client program is rejected: " + r["stderr"][-500:], "at": 0, "event": desc, "origin": {"engine": "client"}}]
        if not compiles and ok:
            return [{"tags": ["C18"], "what": "an unsound client program compiles", "at": 0, "event": dict(desc, src=src[-600:]), "origin": {"engine": "client"}}]
        if not compiles and errs and not any(e in r["stderr"] for e in errs):
            # The property only demands that the program does not compile. Another error of the
            # borrow / lifetime / trait-bound family is still a rejection for a soundness reason (a
            # refactoring may change which of them fires first); anything else (unresolved names,
            # missing methods) means the corpus no longer fits the API: a tool error, not a verdict.
            if any(e in r["stderr"] for e in REJECTION_FAMILY):
                return []
            return [{"tags": ["TOOL"], "what": "client corpus program rejected for a reason outside the soundness family (expected %s): %s" % (errs, r["stderr"][-400:]), "at": 0, "event": desc, "origin": {"engine": "client"}}]
        return []
    with ThreadPoolExecutor(max_workers=14) as ex:
        for job, res in zip(jobs, ex.map(run, jobs)):
            counts["allowed" if job[3] else "forbidden"] += 1
            violations += res
    samples = [{"holder": p["h"], "intruder": p["i"], "order": p["order"], "compiles": p["compiles"], "err": p["err"]} for p in items[3::101][:3]]
    res = {"engine": "client", "tier": tier, "programs": len(jobs), "forbidden": counts["forbidden"], "allowed": counts["allowed"],
           "pairs_from_model": len(items) + len(autos), "autotrait_programs": len(autos), "special_pairs": len(SPECIALS), "positives": len(POSITIVES), "traces": len(jobs),
           "tlc_states": st.get("distinct", 0), "tlc_transitions": st.get("generated", 0),
           "violations": cap_violations(violations), "n_violations": len(violations), "samples": samples,
           "wall_s": round(time.time() - t0, 1), "cached": False}
    cache_put("client", key, res)
    return res


# ============================================================================ two-level declarations + cfg macro chain (C15, C16)

def wd_names(it):
    """names of the two archetypes and of each archetype's two components (alternatives reuse a name)"""
    an = {1: "Aa", 2: "Aa" if it.get("sameA") else "Ab"}
    cn = {1: {1: "Ca", 2: "Ca" if it.get("sameC1") else "Cb"}, 2: {1: "Ca", 2: "Ca" if it.get("sameC2") else "Cb"}}
    return an, cn

def wd_body(it, realise=None, twin=False):
    asg = it["asg"]
    parts = []
    an, cnn = wd_names(it)
    def en(x):
        return all(asg[i] for i, on in enumerate(x["preds"]) if on)
    for ai, name, a in ((1, an[1], it["a1"]), (2, an[2], it["a2"])):
        if twin and not en(a):
            continue
        comps = []
        for cname, c in ((cnn[ai][1], a["c1"]), (cnn[ai][2], a["c2"])):
            if twin and not en(c):
                continue
            comps.append("%s %s %s" % ("" if twin else pred_attrs(c["preds"], realise, asg), "#[component_id(%d)]" % c["id"] if c["id"] >= 0 else "", cname))
        parts.append("%s %s ecs_archetype!(%s, %s);" % ("" if twin else pred_attrs(a["preds"], realise, asg),
                                                        "#[archetype_id(%d)]" % a["id"] if a["id"] >= 0 else "", name, ", ".join(comps)))
    return " ".join(parts)

def chain_check(chain, order, kind):
    """The cfg-probing chain must probe the distinct predicates in first-appearance order, append true
    under cfg(p) and false under cfg(not(p)), hand over to the next link, and end in __impl_ecs_<kind>."""
    links = [l for l in chain["links"] if l[1]]
    if not order:
        return None if chain["direct"] and not links else "a declaration without predicates must expand directly"
    if len(links) != 2 * len(order):
        return "chain has %d links for %d distinct predicates" % (len(links), len(order))
    for i, p in enumerate(order):
        pos, neg = links[2 * i], links[2 * i + 1]
        name = "__cfg_ecs_%s_%d" % (kind, i)
        nxt = "__impl_ecs_%s" % kind if i == len(order) - 1 else "__cfg_ecs_%s_%d" % (kind, i + 1)
        if norm_type(pos[0]) != PRED[p] or norm_type(neg[0]) != "not(%s)" % PRED[p]:
            return "link %d probes %r / %r, expected %s" % (i, pos[0], neg[0], PRED[p])
        if pos[1] != name or neg[1] != name:
            return "link %d is named %s/%s, expected %s" % (i, pos[1], neg[1], name)
        if pos[2] != "true" or neg[2] != "false":
            return "link %d appends %s under cfg and %s under cfg(not): must be true/false" % (i, pos[2], neg[2])
        if not pos[3].replace(" ", "").endswith(nxt) or not neg[3].replace(" ", "").endswith(nxt):
            return "link %d hands over to %s / %s, expected %s" % (i, pos[3], neg[3], nxt)
    if chain["entry"].rstrip("!") != "__cfg_ecs_%s_0" % kind:
        return "chain is entered at %s" % chain["entry"]
    return None

def wdecl(tier, seed):
    key = key_of("wdecl", repo_hash(), verif_hash(), tier, seed)
    c = cache_get("wdecl", key)
    if c:
        c["cached"] = True
        return c
    t0 = time.time()
    rlib, deps = build_gecs((), False)
    lab = build_macrolab()
    psets = "ThreePredSets" if tier == "quick" else "FourPredSets"
    items, st = tlc_lines("WorldDeclMC", "SPECIFICATION Spec\nCONSTANTS\n  Preds <- TwoPreds\n  ArchIds <- ArchIdChoices\n  CompIds <- CompIdChoices\n  PredSets <- %s\n  SameChoices <- NoSame\nINVARIANTS Export\nCHECK_DEADLOCK FALSE\n" % psets, "WDECL", timeout=6000)
    # alternatives: a later item may carry the name of an earlier one under another predicate
    alt, st2 = tlc_lines("WorldDeclMC", "SPECIFICATION Spec\nCONSTANTS\n  Preds <- TwoPreds\n  ArchIds <- NoIds\n  CompIds <- %s\n  PredSets <- ThreePredSets\n  SameChoices <- BOOLEAN\nINVARIANTS Export\nCHECK_DEADLOCK FALSE\n" % ("NoIds" if tier == "quick" else "CompIdChoices"), "WDECL", timeout=6000)
    alt = [it for it in alt if (it["sameA"] or it["sameC1"] or it["sameC2"]) and not it["clash"]]
    for k in ("distinct", "generated"):
        st[k] = st.get(k, 0) + st2.get(k, 0)
    items = [it for it in items + alt if not it["degenerate"]]
    reqs, index = [], []
    chains = {}
    for ii, it in enumerate(items):
        bools = ", ".join("true" if it["asg"][p - 1] else "false" for p in it["order"])
        reqs.append("D\t%s\t%s" % (wd_body(it), bools))
        index.append(("D", ii))
        body = wd_body(it)
        if body not in chains:
            chains[body] = ii
            reqs.append("C\t%s" % body)
            index.append(("C", ii))
    chunks = 12
    per = (len(reqs) + chunks - 1) // chunks
    with ThreadPoolExecutor(max_workers=chunks) as ex:
        parts = list(ex.map(lambda i: run_lab(lab, reqs[i * per:(i + 1) * per]) if reqs[i * per:(i + 1) * per] else [], range(chunks)))
    results = [r for p in parts for r in p]
    violations = []
    stats = {"declarations": len(items), "chains": len(chains), "errors": 0, "with_disabled": 0, "pred_on_arch_and_comp": 0,
             "same_name_alternatives": sum(1 for it in items if it.get("sameA") or it.get("sameC1") or it.get("sameC2"))}
    for (kind, ii), res in zip(index, results):
        it = items[ii]
        names, cnn = wd_names(it)
        deco = any(any(x["preds"]) for a in (it["a1"], it["a2"]) for x in (a, a["c1"], a["c2"]))
        ev = {"a1": it["a1"], "a2": it["a2"], "asg": it["asg"], "order": it["order"], "same": [it.get("sameA"), it.get("sameC1"), it.get("sameC2")],
              "expected": {"ok": it["ok"], "err": it["err"], "archs": it["archs"]}, "generator": res}
        if kind == "C":
            if res["res"] != "ok":
                msg = "chain generation failed: %s" % res.get("msg")
            else:
                msg = chain_check(res["chain"], it["order"], "world")
                if res.get("unsafe"):
                    violations.append({"tags": ["C18"], "what": "cfg chain contains `unsafe`", "at": ii, "event": ev, "origin": {"engine": "wdecl"}})
            if msg:
                violations.append({"tags": ["C16"], "what": "cfg-probing macro chain of ecs_world!: " + msg, "at": ii, "event": ev, "origin": {"engine": "wdecl-chain"}})
            continue
        if not it["ok"]:
            stats["errors"] += 1
        for a in (it["a1"], it["a2"]):
            if any(x and y for x, y in zip(a["preds"], a["c1"]["preds"])) or any(x and y for x, y in zip(a["preds"], a["c2"]["preds"])):
                stats["pred_on_arch_and_comp"] += 1
                break
        msg = None
        if it["ok"]:
            if res["res"] != "ok":
                msg = "declaration rejected (%s), expected ids %s" % (res.get("msg"), it["archs"])
            else:
                got = [(a["name"], a["id"], [(c[0], c[1]) for c in a["comps"]]) for a in res["world"]["archs"]]
                want = [(names[a["which"]], a["id"], [(cnn[a["which"]][c["which"]], c["id"]) for c in a["comps"]]) for a in it["archs"]]
                if len(want) < 2 or any(len(a["comps"]) < 2 for a in it["archs"]):
                    stats["with_disabled"] += 1
                if got != want:
                    msg = "DataWorld %s, expected %s" % (got, want)
        else:
            if res["res"] != "err":
                msg = "expected compile error %s, declaration accepted" % it["err"]
            elif err_class(res["msg"]) != it["err"]:
                msg = "expected error %s, got %s" % (it["err"], err_class(res["msg"]))
        if msg:
            violations.append({"tags": ["C16", "C15"] if deco else ["C15"], "what": "two-level declaration: " + msg, "at": ii, "event": ev, "origin": {"engine": "wdecl-lib"}})
    # end to end: the REAL macro chain with --cfg flags (and cfg(all())/cfg(any())), decorated vs expected ids
    rnd = random.Random(seed)
    cand = [it for it in items if it["ok"] and len(it["order"]) == 2 and it["archs"] and not (it.get("sameA") or it.get("sameC1") or it.get("sameC2"))]
    sample = rnd.sample(cand, min(10 if tier == "quick" else 60, len(cand)))
    cand2 = [it for it in items if it["ok"] and len(it["order"]) == 2 and it["archs"] and (it.get("sameA") or it.get("sameC1") or it.get("sameC2"))]
    sample += rnd.sample(cand2, min(4 if tier == "quick" else 30, len(cand2)))
    def run_job(job):
        it, realise = job
        body = wd_body(it, "const" if realise == "const" else None)
        lines = [IDS_PRELUDE, "ecs_world! { %s }" % body, "fn main() {"]
        want = []
        names, cnn = wd_names(it)
        cn = None
        for a in it["archs"]:
            cn = cnn[a["which"]]
            an = names[a["which"]]
            lines.append('    println!("%s {}", %s::ARCHETYPE_ID);' % (an, an))
            want.append("%s %d" % (an, a["id"]))
            for cc in a["comps"]:
                lines.append('    println!("%s.%s {}", <%s as ArchetypeHas<%s>>::COMPONENT_ID);' % (an, cn[cc["which"]], an, cn[cc["which"]]))
                want.append("%s.%s %d" % (an, cn[cc["which"]], cc["id"]))
        lines.append("}")
        extra = [PRED[i + 1] for i, v in enumerate(it["asg"]) if v] if realise == "flags" else []
        r = compile_run("\n".join(lines), rlib, deps, "wd_%s" % key_of(json.dumps(it), realise)[:12], extra_cfg=extra)
        ev = {"a1": it["a1"], "a2": it["a2"], "asg": it["asg"], "realise": realise}
        if r["rc"] != 0:
            return [{"tags": ["C16", "C15"], "what": "decorated declaration failed to compile: " + r["stderr"][-500:], "at": 0, "event": ev, "origin": {"engine": "wdecl-e2e"}}]
        if r.get("stdout", "").strip() != "\n".join(want):
            return [{"tags": ["C16"], "what": "compiled ids %r, expected %r" % (r.get("stdout", "").strip(), "\n".join(want)), "at": 0, "event": ev, "origin": {"engine": "wdecl-e2e"}}]
        return []
    jobs = [(it, r) for it in sample for r in ("flags", "const")]
    with ThreadPoolExecutor(max_workers=12) as ex:
        for res in ex.map(run_job, jobs):
            violations += res
    res = {"engine": "wdecl", "tier": tier, "seed": seed, "programs": len(items), "generator_runs": len(reqs), "stats": stats,
           "e2e_crates": len(jobs), "traces": len(jobs), "tlc_states": st.get("distinct", 0), "tlc_transitions": st.get("generated", 0),
           "violations": cap_violations(violations), "n_violations": len(violations),
           "samples": [{"a1": it["a1"], "a2": it["a2"], "asg": it["asg"], "order": it["order"], "expected": it["archs"]} for it in items[101::9001][:2]],
           "wall_s": round(time.time() - t0, 1), "cached": False}
    cache_put("wdecl", key, res)
    return res


# ============================================================================ maximum-size declaration (C15 / C17 / C14)

def maxworld_src(n, events):
    """A world with n one-component archetypes (the declaration-size boundary: ids 0..255) and a
    program that exercises what depends on the NUMBER of archetypes: id constants, dynamic dispatch
    to the first / middle / last archetype, Select conversions, world-level queries and event iterators."""
    L = ["#![forbid(unsafe_code)]", "#![allow(warnings)]", "use gecs::prelude::*;", "#[derive(Clone)] pub struct Ca(pub u32);", "ecs_world! {"]
    for i in range(n):
        L.append("    ecs_archetype!(M%d, Ca);" % i)
    L.append("}")
    L.append("fn check(out: &mut Vec<String>) {")
    L.append("    let mut world = EcsWorld::new();")
    L.append("    if <EcsWorld as World>::NUM_ARCHETYPES != %d { out.push(format!(\"C15 NUM_ARCHETYPES {}\", <EcsWorld as World>::NUM_ARCHETYPES)); }" % n)
    L.append("    let mut all: Vec<EntityAny> = Vec::new();")
    for i in range(n):
        L.append("    { if M%d::ARCHETYPE_ID as usize != %d { out.push(format!(\"C15 ARCHETYPE_ID of M%d is {}\", M%d::ARCHETYPE_ID)); } let e = world.create::<M%d>((Ca(%d),)); all.push(e.into_any()); }" % (i, i, i, i, i, 1000 + i))
    L.append("    let set: std::collections::HashSet<(u32, u32)> = all.iter().map(|e| e.raw()).collect();")
    L.append("    if set.len() != all.len() { out.push(\"C08 handles of different archetypes collide\".to_string()); }")
    L.append("    for (i, e) in all.iter().enumerate() {")
    L.append("        if e.archetype_id() as usize != i { out.push(format!(\"C14 archetype_id() of entity {} is {}\", i, e.archetype_id())); }")
    L.append("        if !world.contains(*e) { out.push(format!(\"C01 live entity {} not contained\", i)); }")
    L.append("        let v = ecs_find!(world, *e, |c: &Ca| -> u32 { c.0 });")
    L.append("        if v != Some(1000 + i as u32) { out.push(format!(\"C02 ecs_find on entity {} gives {:?}\", i, v)); }")
    L.append("        match SelectEntity::try_from(*e) { Ok(s) => { let back: EntityAny = match s { %s }; if back != *e { out.push(format!(\"C14 Select round trip {}\", i)); } } Err(_) => out.push(format!(\"C14 Select rejects archetype {}\", i)) }" %
             " ".join("SelectEntity::M%d(x) => x.into_any()," % i for i in range(n)))
    L.append("    }")
    L.append("    let mut seen = 0usize; ecs_iter!(world, |e: &EntityAny, c: &Ca| { if c.0 as usize != 1000 + e.archetype_id() as usize { seen += 100000; } seen += 1; });")
    L.append("    if seen != %d { out.push(format!(\"C06 ecs_iter visited {}\", seen)); }" % n)
    if events:
        L.append("    { let mut it = world.iter_created(); let mut k = 0usize; loop { let h = it.size_hint(); if h != (%d - k, Some(%d - k)) { out.push(format!(\"C17 size_hint {:?} after {}\", h, k)); break; } if it.next().is_none() { break; } k += 1; } if k != %d { out.push(format!(\"C17 iter_created yields {}\", k)); } }" % (n, n, n))
    L.append("    for (i, e) in all.iter().enumerate() { if i % 2 == 1 { if world.destroy(*e).is_none() { out.push(format!(\"C01 destroy of live entity {} failed\", i)); } if world.contains(*e) { out.push(format!(\"C01 destroyed entity {} still contained\", i)); } } }")
    if events:
        L.append("    { let d: Vec<EntityAny> = world.iter_destroyed().copied().collect(); if d.len() != %d || d.iter().any(|e| e.archetype_id() %% 2 != 1) { out.push(format!(\"C17 iter_destroyed yields {}\", d.len())); } }" % (n // 2))
        L.append("    if world.iter_created().count() != %d { out.push(\"C17 iter_created count\".to_string()); }" % n)
        L.append("    world.clear_events(); if world.iter_created().count() != 0 || world.iter_destroyed().count() != 0 { out.push(\"C17 clear_events\".to_string()); }")
    L.append("    let c = world.clone(); let mut n2 = 0usize; ecs_iter_borrow!(c, |_e: &EntityAny| { n2 += 1; }); if n2 != %d { out.push(format!(\"C13 clone holds {}\", n2)); }" % (n - n // 2))
    L.append("    let mut gone = 0usize; ecs_iter_destroy!(world, |_e: &EntityAny| { gone += 1; EcsStepDestroy::ContinueDestroy }); if gone != %d { out.push(format!(\"C07 iter_destroy removed {}\", gone)); }" % (n - n // 2))
    L.append("    for e in all.iter() { if world.contains(*e) { out.push(\"C07 entity survives a destroying pass\".to_string()); break; } }")
    L.append("}")
    L.append("fn main() { let mut out: Vec<String> = Vec::new(); let r = std::panic::catch_unwind(std::panic::AssertUnwindSafe(|| check(&mut out)));")
    L.append("    if r.is_err() { out.push(\"C10 panic in a %d-archetype world\".to_string()); } if out.is_empty() { println!(\"ALLOK\"); } else { for l in out.iter().take(12) { println!(\"FAIL {}\", l); } } }" % n)
    return "\n".join(L)

def maxarity_src(n):
    """One archetype with n components (the documented maximum is 16, or 32 with `32_components`):
    every column is written and read back through create / view / slices / iterator / query / clone / destroy."""
    L = ["#![forbid(unsafe_code)]", "#![allow(warnings)]", "use gecs::prelude::*;"]
    for i in range(n):
        L.append("#[derive(Clone, Debug, PartialEq)] pub struct K%d(pub u32);" % i)
    L.append("ecs_world! { ecs_archetype!(Wide, %s); }" % ", ".join("K%d" % i for i in range(n)))
    L.append("fn check(out: &mut Vec<String>) {")
    L.append("    let mut world = EcsWorld::new();")
    L.append("    let e0 = world.create::<Wide>((%s,));" % ", ".join("K%d(%d)" % (i, 100 + i) for i in range(n)))
    L.append("    let e1 = world.create::<Wide>((%s,));" % ", ".join("K%d(%d)" % (i, 200 + i) for i in range(n)))
    L.append("    { let v = world.view(e1).unwrap(); %s }" % " ".join("if v.component::<K%d>().0 != %d { out.push(\"C02 view column %d\".to_string()); }" % (i, 200 + i, i) for i in range(n)))
    L.append("    { let b = world.borrow(e0).unwrap(); %s }" % " ".join("if b.component::<K%d>().0 != %d { out.push(\"C02 borrow column %d\".to_string()); }" % (i, 100 + i, i) for i in range(n)))
    L.append("    %s" % " ".join("if world.wide.get_slice::<K%d>()[1].0 != %d { out.push(\"C02 slice column %d\".to_string()); }" % (i, 200 + i, i) for i in range(n)))
    L.append("    { let last = ecs_find!(world, e1, |first: &K0, k: &mut K%d| -> u32 { k.0 += 1000; first.0 + k.0 }); if last != Some(%d) { out.push(format!(\"C02 find first+last column {:?}\", last)); } }" % (n - 1, 200 + 200 + n - 1 + 1000))
    L.append("    { let mut seen = 0u32; for it in world.wide.iter() { seen += 1; } if seen != 2 { out.push(\"C06 iterator arity\".to_string()); } }")
    L.append("    let c = world.clone(); if c.view_check(e1) != %d { out.push(\"C13 clone last column\".to_string()); }" % (200 + n - 1 + 1000) if False else "    let mut c = world.clone(); if c.view(e1).map(|v| v.component::<K%d>().0) != Some(%d) { out.push(\"C13 clone last column\".to_string()); }" % (n - 1, 200 + n - 1 + 1000))
    L.append("    match world.wide.destroy(e0) { Some(comps) => { let t = comps.into_tuple(); if (t.0).0 != 100 || (t.%d).0 != %d { out.push(\"C02 destroy returns columns\".to_string()); } } None => out.push(\"C01 destroy\".to_string()) }" % (n - 1, 100 + n - 1))
    L.append("    if world.wide.len() != 1 || !world.contains(e1) || world.contains(e0) { out.push(\"C01 after destroy\".to_string()); }")
    L.append("}")
    L.append("fn main() { let mut out: Vec<String> = Vec::new(); let r = std::panic::catch_unwind(std::panic::AssertUnwindSafe(|| check(&mut out)));")
    L.append("    if r.is_err() { out.push(\"C10 panic with a %d-component archetype\".to_string()); } if out.is_empty() { println!(\"ALLOK\"); } else { for l in out.iter().take(12) { println!(\"FAIL {}\", l); } } }" % n)
    return "\n".join(L)

def maxworld(tier, seed, features=()):
    feats = tuple(sorted(features))
    key = key_of("maxworld", repo_hash(), verif_hash(), tier, feats)
    c = cache_get("maxworld", key)
    if c:
        c["cached"] = True
        return c
    t0 = time.time()
    rlib, deps = build_gecs(feats, False)
    events = "events" in feats
    violations = []
    amax = 32 if "32_components" in feats else 16
    jobs = [("full", 256, True), ("over", 257, False)] + ([("half", 129, True)] if tier == "thorough" else [])
    jobs += [("arity", -amax, True), ("arityover", -(amax + 1), False)]
    def run(job):
        name, n, must_compile = job
        extra = ['feature="%s"' % f for f in feats]
        if n < 0:
            r = compile_run(maxarity_src(-n), rlib, deps, "maxa_%s_%s" % (name, key[:10]), run=must_compile, extra_cfg=extra)
            out = []
            ev = {"components": -n, "features": list(feats)}
            c19 = ["C19"] if feats else []
            if must_compile and r["rc"] != 0:
                out.append({"tags": ["C02", "C15"] + c19, "what": "an archetype with %d components (the documented maximum%s) does not compile: %s" % (-n, " with " + "+".join(feats) if feats else "", r["stderr"][-400:]), "at": 0, "event": ev, "origin": {"engine": "maxworld"}})
            elif must_compile:
                so = r.get("stdout", "")
                fails = [l[5:] for l in so.splitlines() if l.startswith("FAIL ")]
                if fails or "ALLOK" not in so:
                    tags = sorted({f.split()[0] for f in fails if f.split() and f.split()[0].startswith("C")} | set(c19)) or ["C02", "C10"] + c19
                    out.append({"tags": tags, "what": "%d-component archetype (%s): %s" % (-n, "+".join(feats) or "default", "; ".join(fails)[:500] or so[-400:]), "at": 0, "event": ev, "origin": {"engine": "maxworld"}})
            elif r["rc"] == 0:
                out.append({"tags": ["C19", "C15"], "what": "an archetype with %d components compiles (%s)" % (-n, "+".join(feats) or "default"), "at": 0, "event": ev, "origin": {"engine": "maxworld"}})
            return out
        r = compile_run(maxworld_src(n, events), rlib, deps, "maxw_%s_%s" % (name, key[:10]), run=must_compile, extra_cfg=extra)
        out = []
        ev = {"archetypes": n, "features": list(feats)}
        if must_compile:
            if r["rc"] != 0:
                out.append({"tags": ["C15", "C17"] if events else ["C15"], "what": "a world with %d archetypes does not compile: %s" % (n, r["stderr"][-400:]), "at": 0, "event": ev, "origin": {"engine": "maxworld"}})
            else:
                so = r.get("stdout", "")
                fails = [l[5:] for l in so.splitlines() if l.startswith("FAIL ")]
                if fails or "ALLOK" not in so:
                    tags = sorted({f.split()[0] for f in fails if f.split() and f.split()[0].startswith("C")}) or ["C15", "C17", "C10"]
                    if "C10" in tags and events:
                        tags = sorted(set(tags) | {"C17"})
                    out.append({"tags": tags, "what": "%d-archetype world (%s): %s" % (n, "+".join(feats) or "default", "; ".join(fails)[:500] or so[-400:]), "at": 0, "event": ev, "origin": {"engine": "maxworld"}})
        else:
            if r["rc"] == 0:
                out.append({"tags": ["C15"], "what": "a declaration of %d archetypes (ids past 255) compiles" % n, "at": 0, "event": ev, "origin": {"engine": "maxworld"}})
        return out
    with ThreadPoolExecutor(max_workers=5) as ex:
        for res in ex.map(run, jobs):
            violations += res
    res = {"engine": "maxworld", "cfg": cfg_name(feats, False), "tier": tier, "seed": seed, "programs": len(jobs), "generator_runs": 0, "e2e_crates": len(jobs), "traces": len(jobs),
           "archetypes": 256, "tlc_states": 0, "tlc_transitions": 0, "violations": violations, "n_violations": len(violations), "samples": [],
           "wall_s": round(time.time() - t0, 1), "cached": False}
    cache_put("maxworld", key, res)
    return res
