"""Shared machinery of the gecs verification checks (stdlib only)."""
import hashlib, json, os, re, shutil, subprocess, sys, time

VERIF = os.path.dirname(os.path.dirname(os.path.abspath(__file__)))
BUILD = os.path.join(VERIF, "build")
SPEC = os.path.join(VERIF, "spec")
HARNESS = os.path.join(VERIF, "harness", "src")
REPO = os.path.realpath(os.environ.get("VERIF_REPO", "/repo"))
TLA_JAR = "/opt/veriftools/tla/tla2tools.jar"

class ToolError(Exception):
    pass

def log(*a):
    print("[verif]", *a, file=sys.stderr, flush=True)

def sh(cmd, cwd=None, env=None, timeout=None, check=True, capture=True):
    e = dict(os.environ)
    e.update({"CARGO_NET_OFFLINE": "true"})
    if env:
        e.update(env)
    t0 = time.time()
    try:
        p = subprocess.run(cmd, cwd=cwd, env=e, timeout=timeout, shell=isinstance(cmd, str),
                           stdout=subprocess.PIPE if capture else None,
                           stderr=subprocess.STDOUT if capture else None, text=True)
    except subprocess.TimeoutExpired:
        raise ToolError("timeout after %ss: %s" % (timeout, cmd))
    if check and p.returncode != 0:
        raise ToolError("command failed (%d): %s\n%s" % (p.returncode, cmd, (p.stdout or "")[-4000:]))
    return p.returncode, p.stdout or "", time.time() - t0

# --------------------------------------------------------------------------- hashing / cache

def _hash_files(paths, h):
    for p in sorted(paths):
        h.update(p.encode())
        try:
            with open(p, "rb") as f:
                h.update(f.read())
        except OSError:
            h.update(b"<missing>")

def tree_files(root, subdirs, exts):
    out = []
    for sd in subdirs:
        base = os.path.join(root, sd)
        if os.path.isfile(base):
            out.append(base)
            continue
        for d, dirs, files in os.walk(base):
            dirs[:] = [x for x in dirs if x not in ("target", ".git", "build")]
            for f in files:
                if not exts or os.path.splitext(f)[1] in exts:
                    out.append(os.path.join(d, f))
    return out

_repo_hash = None
def repo_hash():
    """Content hash of everything in the repository working tree that a build depends on."""
    global _repo_hash
    if _repo_hash is None:
        h = hashlib.sha256()
        h.update(REPO.encode())
        _hash_files(tree_files(REPO, ["src", "macros/src", "Cargo.toml", "macros/Cargo.toml", "Cargo.lock", "README.md", "tests"],
                               {".rs", ".toml", ".lock", ".md"}), h)
        _repo_hash = h.hexdigest()[:20]
    return _repo_hash

_verif_hash = None
def verif_hash():
    global _verif_hash
    if _verif_hash is None:
        h = hashlib.sha256()
        _hash_files(tree_files(VERIF, ["spec", "harness", "lib", "bin", "macrolab", "known_findings.txt"],
                               {".tla", ".cfg", ".rs", ".py", ".toml", ".txt", ""}), h)
        _verif_hash = h.hexdigest()[:20]
    return _verif_hash

def cache_get(kind, key):
    if os.environ.get("VERIF_NO_CACHE"):
        return None
    p = os.path.join(BUILD, "cache", "%s-%s.json" % (kind, key))
    if os.path.exists(p):
        try:
            with open(p) as f:
                return json.load(f)
        except Exception:
            return None
    return None

def cache_put(kind, key, val):
    os.makedirs(os.path.join(BUILD, "cache"), exist_ok=True)
    p = os.path.join(BUILD, "cache", "%s-%s.json" % (kind, key))
    with open(p + ".tmp", "w") as f:
        json.dump(val, f)
    os.replace(p + ".tmp", p)

def key_of(*parts):
    return hashlib.sha256(json.dumps(parts, sort_keys=True).encode()).hexdigest()[:24]

# --------------------------------------------------------------------------- builds

def cfg_name(features, release):
    return ("rel" if release else "dbg") + "".join("+" + f for f in sorted(features))

def build_gecs(features=(), release=False, hooks=True):
    """cargo-build the gecs crate from the repo's *current working tree*; returns (rlib, deps dir)."""
    name = cfg_name(features, release) + ("" if hooks else "-nohook")
    tgt = os.path.join(BUILD, "tgt", hashlib.sha256(REPO.encode()).hexdigest()[:8] + "-" + name)
    cmd = ["cargo", "build", "--offline", "--lib", "-p", "gecs"]
    if release:
        cmd.append("--release")
    if features:
        cmd += ["--features", ",".join(features)]
    env = {"CARGO_TARGET_DIR": tgt, "RUSTFLAGS": ("--cfg gecs_verif " if hooks else "") + "-Awarnings"}
    rc, out, dt = sh(cmd, cwd=REPO, env=env, timeout=1200, check=False)
    if rc != 0:
        raise ToolError("cargo build of gecs failed (%s):\n%s" % (name, out[-3000:]))
    prof = "release" if release else "debug"
    rlib = os.path.join(tgt, prof, "libgecs.rlib")
    if not os.path.exists(rlib):
        raise ToolError("libgecs.rlib not produced")
    return rlib, os.path.join(tgt, prof, "deps")

def build_harness(features=(), release=False, shape="a"):
    """rustc the harness against the freshly built gecs; returns the binary path."""
    rlib, deps = build_gecs(features, release)
    name = cfg_name(features, release) + ("" if shape == "a" else "-shape" + shape)
    hsrc = tree_files(HARNESS, ["."], {".rs"})
    h = hashlib.sha256()
    _hash_files(hsrc + [rlib], h)
    outdir = os.path.join(BUILD, "hbin")
    os.makedirs(outdir, exist_ok=True)
    binp = os.path.join(outdir, "gvh-%s-%s" % (name, h.hexdigest()[:16]))
    if os.path.exists(binp):
        return binp
    cmd = ["rustc", "--edition", "2021", "--cfg", "gecs_verif", "-Awarnings",
           "-L", "dependency=" + deps, "--extern", "gecs=" + rlib,
           os.path.join(HARNESS, "main.rs"), "-o", binp]
    for f in features:
        cmd += ["--cfg", 'feature="%s"' % f]
    if shape != "a":
        cmd += ["--cfg", "vw_shape_" + shape]
    if release:
        cmd += ["-C", "opt-level=2"]
    else:
        cmd += ["-C", "debug-assertions=on", "-C", "opt-level=0"]
    rc, out, dt = sh(cmd, timeout=1200, check=False)
    if rc != 0:
        raise ToolError("rustc of harness failed (%s):\n%s" % (name, out[-4000:]))
    # keep only the newest few binaries
    olds = sorted((os.path.getmtime(os.path.join(outdir, f)), f) for f in os.listdir(outdir) if f.startswith("gvh-%s-" % name))
    for _, f in olds[:-2]:
        try:
            os.remove(os.path.join(outdir, f))
        except OSError:
            pass
    return binp

# --------------------------------------------------------------------------- TLC

import itertools, threading
_tmp_counter = itertools.count()
def tlc_env(extra=""):
    tmp = os.path.join(BUILD, "tlc", "tmp%d-%d-%d" % (os.getpid(), threading.get_ident() % 100000, next(_tmp_counter)))
    os.makedirs(tmp, exist_ok=True)
    return tmp, {"JAVA_TOOL_OPTIONS": "-Xss1g -Djava.io.tmpdir=%s %s" % (tmp, extra)}

def run_tlc(module, cfg=None, workers=1, env_extra=None, timeout=1800, java_extra="", args=()):
    tmp, env = tlc_env(java_extra)
    if env_extra:
        env.update(env_extra)
    md = os.path.join(tmp, "md")
    cmd = ["tlc", "-workers", str(workers), "-metadir", md, "-cleanup", "-noGenerateSpecTE",
           "-config", cfg or (module + ".cfg")] + list(args) + [module + ".tla"]
    try:
        rc, out, dt = sh(["timeout", str(timeout)] + cmd, cwd=SPEC, env=env, check=False, timeout=timeout + 60)
    finally:
        pass
    shutil.rmtree(tmp, ignore_errors=True)
    return rc, out, dt

def tlc_stats(out):
    m = re.search(r"(\d+) states generated, (\d+) distinct states found", out)
    st = {"generated": int(m.group(1)), "distinct": int(m.group(2))} if m else {}
    m = re.search(r"depth of the complete state graph search is (\d+)", out)
    if m:
        st["depth"] = int(m.group(1))
    return st

def validate_trace(trace_path, timeout=3000, module="TraceContract", _prefix=False):
    """TLC trace validation (TraceContract by default) over an ndjson trace. Returns (violations, stats)."""
    rc, out, dt = run_tlc(module, env_extra={"TRACE": trace_path}, timeout=timeout,
                          java_extra="-Dtlc2.tool.queue.IStateQueue=StateDeque")
    m = re.search(r'<<"VIOLATIONS", "(.*)">>', out)
    if "STOPPED_AT" in out or m is None or "No error has been found" not in out:
        stop = re.search(r'<<"STOPPED_AT", (\d+)>>', out)
        # The contract could not interpret one event (a TLC evaluation error). That is a defect of the
        # machinery, never a verdict -- but what the contract found in the events BEFORE it still
        # stands: validate that prefix, and give up (tool error) only if it is clean.
        depth = re.search(r"The depth of the complete state graph search is (\d+)", out)
        if depth and not _prefix and int(depth.group(1)) > 2:
            consumed = int(depth.group(1)) - 1
            pre = trace_path + ".prefix"
            with open(trace_path) as f, open(pre, "w") as g:
                for i, line in enumerate(f):
                    if i >= consumed:
                        break
                    g.write(line)
            try:
                viol, st = validate_trace(pre, timeout, module, _prefix=True)
            except ToolError:
                viol, st = [], {}
            finally:
                if os.path.exists(pre):
                    os.remove(pre)
            if viol:
                st["truncated_at"] = consumed
                return viol, st
        raise ToolError("trace validation did not consume the trace (%s)\n%s" % (stop.group(1) if stop else "?", out[-3000:]))
    js = m.group(1).encode().decode("unicode_escape")
    viol = json.loads(js)
    st = tlc_stats(out)
    st["wall_s"] = round(dt, 2)
    m2 = re.search(r'<<"PROBECLASSES", <<([0-9, ]+)>>>>', out)
    if m2:
        n = [int(x) for x in m2.group(1).split(",")]
        st["probe_classes"] = dict(zip(["entity_live", "entity_stale", "entity_forged", "direct_current", "direct_dead", "direct_foreign"], n))
    return viol, st


def build_macrolab(features=(), debug_assertions=True):
    """Compile the macro crate's own sources (from the repo working tree) together with
    macrolab/lab.rs into a plain binary, reusing the dependency rlibs cargo built for gecs_macros."""
    rlib, deps = build_gecs(features, False)
    h = hashlib.sha256()
    _hash_files(tree_files(REPO, ["macros/src"], {".rs"}) + [os.path.join(VERIF, "macrolab", "lab.rs")], h)
    h.update(repr(sorted(features)).encode())
    h.update(repr(debug_assertions).encode())
    outdir = os.path.join(BUILD, "hbin")
    os.makedirs(outdir, exist_ok=True)
    binp = os.path.join(outdir, "macrolab-%s%s" % (h.hexdigest()[:16], "" if debug_assertions else "-nda"))
    if os.path.exists(binp):
        return binp
    main_rs = os.path.join(BUILD, "macrolab_main_%d.rs" % os.getpid())
    with open(main_rs, "w") as f:
        f.write('#![allow(warnings)]\n#[path = "%s/macros/src/data.rs"] mod data;\n#[path = "%s/macros/src/generate/mod.rs"] mod generate;\n'
                '#[path = "%s/macros/src/parse/mod.rs"] mod parse;\n#[path = "%s/macrolab/lab.rs"] mod lab;\nfn main() { std::panic::set_hook(Box::new(|_| {})); lab::main(); }\n'
                % (REPO, REPO, REPO, VERIF))
    cmd = ["rustc", "--edition", "2021", "-Awarnings", "-L", "dependency=" + deps, main_rs, "-o", binp]
    for crate in ("syn", "quote", "proc_macro2", "convert_case", "xxhash_rust", "base64", "speedy"):
        cands = [x for x in os.listdir(deps) if x.startswith("lib%s-" % crate) and x.endswith(".rlib")]
        if not cands:
            raise ToolError("dependency rlib for %s not found" % crate)
        cands.sort(key=lambda x: os.path.getmtime(os.path.join(deps, x)))
        cmd += ["--extern", "%s=%s" % (crate, os.path.join(deps, cands[-1]))]
    for f in features:
        cmd += ["--cfg", 'feature="%s"' % f]
    if not debug_assertions:
        # the profile a release build of a client compiles the proc-macro crate in
        cmd += ["-C", "debug-assertions=off", "-C", "overflow-checks=off", "-C", "opt-level=1"]
    rc, out, dt = sh(cmd, timeout=1200, check=False)
    os.remove(main_rs)
    if rc != 0:
        raise ToolError("rustc of macrolab failed:\n%s" % out[-4000:])
    olds = sorted((os.path.getmtime(os.path.join(outdir, f)), f) for f in os.listdir(outdir) if f.startswith("macrolab-"))
    for _, f in olds[:-3]:
        try:
            os.remove(os.path.join(outdir, f))
        except OSError:
            pass
    return binp
