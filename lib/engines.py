"""Engines: each runs one kind of exploration and returns a JSON-able summary
{engine, cfg, violations:[{tags, what, where, replay}], stats:{...}, samples:[...]}; results are
memoised under build/cache keyed by the content hash of the repository tree and of /verif."""
import json, os, re, shutil, time
from concurrent.futures import ThreadPoolExecutor
from vlib import *

def _trace_dir():
    d = os.path.join(BUILD, "traces")
    os.makedirs(d, exist_ok=True)
    return d

def _event_brief(line):
    try:
        ev = json.loads(line)
    except Exception:
        return {"raw": line[:300]}
    brief = {k: v for k, v in ev.items() if k not in ("obs",)}
    s = json.dumps(brief)
    if len(s) > 1500:
        brief = {k: (v if len(json.dumps(v)) < 300 else "...") for k, v in brief.items()}
    return brief

def _collect(trace, viol, origin):
    """Attach the offending event and a replay descriptor to every violation record."""
    if not viol:
        return []
    lines = {}
    want = {v["at"] for v in viol}
    with open(trace) as f:
        for i, line in enumerate(f, start=1):
            if i in want:
                lines[i] = line
    out = []
    for v in sorted(viol, key=lambda v: v["at"]):
        out.append({"tags": list(v["p"]), "what": v["what"], "at": v["at"],
                    "event": _event_brief(lines.get(v["at"], "")), "origin": origin})
    return out

def _sample_events(trace, n=3):
    out = []
    with open(trace) as f:
        for i, line in enumerate(f):
            if i in (2, 9, 30, 77) and len(out) < n:
                out.append(_event_brief(line))
    return out

def _count_ops(trace):
    ops = {}
    n = 0
    with open(trace) as f:
        for line in f:
            m = re.match(r'\{"op":"([a-z_]+)"', line)
            if m:
                ops[m.group(1)] = ops.get(m.group(1), 0) + 1
            n += 1
    return n, ops

def drive(tier, seed, features=(), release=False, extra_args=(), label="drive"):
    feats = tuple(sorted(features))
    key = key_of(label, repo_hash(), verif_hash(), tier, seed, feats, release, extra_args)
    c = cache_get(label, key)
    if c:
        c["cached"] = True
        return c
    t0 = time.time()
    binp = build_harness(feats, release)
    chunks, runs, steps = (4, 12, 60) if tier == "quick" else (16, 60, 70)
    tdir = _trace_dir()
    def one(i):
        cseed = seed * 1000 + i
        trace = os.path.join(tdir, "%s-%s-%d.ndjson" % (label, key[:10], i))
        rc, out, dt = sh([binp, "drive", "--seed", str(cseed), "--runs", str(runs), "--steps", str(steps),
                          "--out", trace] + list(extra_args), timeout=900, check=False)
        if rc != 0:
            # the process died (signal, abort, or a panic in a place nothing can catch): that is
            # data about the code under test, not a tool failure -- append a crash event
            cur = ""
            try:
                cur = open(trace + ".cur").read()
            except OSError:
                pass
            with open(trace, "rb+") as f:
                data = f.read()
                if data and not data.endswith(b"\n"):
                    f.seek(data.rfind(b"\n") + 1)
                    f.truncate()
            with open(trace, "a") as f:
                f.write(json.dumps({"op": "crash", "phase": "process", "during": cur, "signal": -rc if rc < 0 else rc}) + "\n")
        if os.path.exists(trace + ".cur"):
            os.remove(trace + ".cur")
        m = re.search(r"events=(\d+) probes=(\d+)", out)
        viol, st = validate_trace(trace)
        n, ops = _count_ops(trace)
        res = {"seed": cseed, "events": n, "probes": int(m.group(2)) if m else 0, "ops": ops, "tlc": st,
               "violations": _collect(trace, viol, {"engine": label, "seed": cseed, "runs": runs, "steps": steps,
                                                   "features": list(feats), "release": release, "args": list(extra_args)}),
               "samples": _sample_events(trace, 2) if i == 0 else []}
        if not viol:
            os.remove(trace)
        return res
    with ThreadPoolExecutor(max_workers=min(chunks, 8)) as ex:
        parts = list(ex.map(one, range(chunks)))
    ops = {}
    for p in parts:
        for k, v in p["ops"].items():
            ops[k] = ops.get(k, 0) + v
    res = {"engine": label, "cfg": cfg_name(feats, release), "tier": tier, "seed": seed,
           "traces": chunks, "runs": chunks * runs, "events": sum(p["events"] for p in parts),
           "probes": sum(p["probes"] for p in parts), "ops": ops,
           "tlc_states": sum(p["tlc"].get("distinct", 0) for p in parts),
           "tlc_transitions": sum(p["tlc"].get("generated", 0) for p in parts),
           "violations": [v for p in parts for v in p["violations"]],
           "samples": [s for p in parts for s in p["samples"]],
           "wall_s": round(time.time() - t0, 1), "cached": False}
    cache_put(label, key, res)
    return res
