"""Engines: each runs one kind of exploration and returns a JSON-able summary
{engine, cfg, violations:[{tags, what, where, replay}], stats:{...}, samples:[...]}; results are
memoised under build/cache keyed by the content hash of the repository tree and of /verif."""
import json, os, re, shutil, time
from concurrent.futures import ThreadPoolExecutor
from vlib import *

def cap_violations(violations, per_tag=25):
    """Keep at most `per_tag` violations per property tag (so one noisy clause cannot crowd out another property)."""
    count, out = {}, []
    for v in violations:
        keep = False
        for t in v["tags"]:
            if count.get(t, 0) < per_tag:
                keep = True
            count[t] = count.get(t, 0) + 1
        if keep:
            out.append(v)
    return out

def _trace_dir():
    d = os.path.join(BUILD, "traces")
    os.makedirs(d, exist_ok=True)
    return d

def _event_brief(line):
    try:
        ev = json.loads(line)
    except Exception:
        return {"raw": line[:300]}
    brief = {k: v for k, v in ev.items() if k not in ("obs",)}
    s = json.dumps(brief)
    if len(s) > 1500:
        brief = {k: (v if len(json.dumps(v)) < 300 else "...") for k, v in brief.items()}
    return brief

def _collect(trace, viol, origin):
    """Attach the offending event and a replay descriptor to every violation record."""
    if not viol:
        return []
    lines = {}
    want = {v["at"] for v in viol}
    with open(trace) as f:
        for i, line in enumerate(f, start=1):
            if i in want:
                lines[i] = line
    out = []
    for v in sorted(viol, key=lambda v: v["at"]):
        out.append({"tags": list(v["p"]), "what": v["what"], "at": v["at"],
                    "event": _event_brief(lines.get(v["at"], "")), "origin": origin})
    return out

def _sample_events(trace, n=3):
    """A few recorded events of different kinds (a loop with visits, a destroy hit, a clone, a fault)."""
    out, kinds = [], set()
    with open(trace) as f:
        for i, line in enumerate(f):
            if i < 3:
                continue
            m = re.match(r'\{"op":"([a-z_]+)"', line)
            if not m or m.group(1) in ("decl", "reset", "init", "noop"):
                continue
            k = m.group(1)
            if k == "loop" and '"visits":[]' in line:
                continue
            if k == "destroy" and '"out":["n"]' in line:
                k = "destroy-miss"
            if '"out":["p"]' in line:
                k = k + "-panic"
            if k not in kinds and len(out) < n + 3:
                kinds.add(k)
                out.append(_event_brief(line))
    pref = [e for e in out if e.get("op") in ("loop", "clone")] + [e for e in out if e.get("op") not in ("loop", "clone")]
    return pref[:n]

def _outcome_stats(trace):
    """Measured non-trivial cases in a trace: outcomes per operation, loops with mixed decisions, faults."""
    st = {"destroy_hit": 0, "destroy_miss": 0, "panic_outcomes": 0, "within_err": 0, "loops_destroy_then_keep": 0, "loops_with_break": 0,
          "faults_injected": 0, "clones_ok": 0, "worlds_max": 0, "finds_some": 0, "finds_none": 0}
    with open(trace) as f:
        for line in f:
            m = re.match(r'\{"op":"([a-z_]+)"', line)
            if not m:
                continue
            op = m.group(1)
            if '"out":["p"]' in line: st["panic_outcomes"] += 1
            if '"fault":true' in line: st["faults_injected"] += 1
            if op == "destroy":
                if '"out":["n"]' in line: st["destroy_miss"] += 1
                elif '"out":["vals"' in line or '"out":["unit"]' in line: st["destroy_hit"] += 1
            elif op == "create_within" and '"out":["err"' in line: st["within_err"] += 1
            elif op == "clone" and '"out":["ok"]' in line: st["clones_ok"] += 1
            elif op == "find":
                if '"out":["some"]' in line: st["finds_some"] += 1
                elif '"out":["n"]' in line: st["finds_none"] += 1
            elif op == "loop":
                decs = re.findall(r'"dec":"(\w+)"', line.split('"obs"')[0])
                if any(d in ("b", "bd") for d in decs): st["loops_with_break"] += 1
                seen_d = False
                for d in decs:
                    if d in ("cd", "bd"): seen_d = True
                    elif seen_d and d == "c":
                        st["loops_destroy_then_keep"] += 1
                        break
            st["worlds_max"] = max(st["worlds_max"], line.count('{"w":'))
    return st

def _count_ops(trace):
    ops = {}
    n = 0
    with open(trace) as f:
        for line in f:
            m = re.match(r'\{"op":"([a-z_]+)"', line)
            if m:
                ops[m.group(1)] = ops.get(m.group(1), 0) + 1
            n += 1
    return n, ops

def drive(tier, seed, features=(), release=False, extra_args=(), label="drive", small=False, shape="a"):
    feats = tuple(sorted(features))
    key = key_of(label, repo_hash(), verif_hash(), tier, seed, feats, release, extra_args, small, shape)
    c = cache_get(label, key)
    if c:
        c["cached"] = True
        return c
    t0 = time.time()
    binp = build_harness(feats, release, shape)
    chunks, runs, steps = (5, 12, 60) if tier == "quick" else (16, 60, 70)
    if small:
        chunks, runs, steps = (2, 8, 50) if tier == "quick" else (4, 30, 60)
    tdir = _trace_dir()
    def one(i):
        cseed = seed * 1000 + i
        trace = os.path.join(tdir, "%s-%s-%d.ndjson" % (label, key[:10], i))
        margs = ["--runs", str(runs), "--steps", str(steps)]
        if i == chunks - 1 and not small:
            # last chunk: large populations (several growth steps, dozens of entities per archetype)
            margs = ["--runs", "2" if tier == "quick" else "8", "--steps", "90" if tier == "quick" else "160", "--big",
                     "--max-live", "70" if tier == "quick" else "150", "--max-probe", "10"]
        rc, out, dt = sh([binp, "drive", "--seed", str(cseed)] + margs + ["--out", trace] + list(extra_args), timeout=1800, check=False)
        if rc != 0:
            # the process died (signal, abort, or a panic in a place nothing can catch): that is
            # data about the code under test, not a tool failure -- append a crash event
            cur = ""
            try:
                cur = open(trace + ".cur").read()
            except OSError:
                pass
            with open(trace, "rb+") as f:
                data = f.read()
                if data and not data.endswith(b"\n"):
                    f.seek(data.rfind(b"\n") + 1)
                    f.truncate()
            with open(trace, "a") as f:
                f.write(json.dumps({"op": "crash", "phase": "process", "during": cur, "signal": -rc if rc < 0 else rc}) + "\n")
        if os.path.exists(trace + ".cur"):
            os.remove(trace + ".cur")
        m = re.search(r"events=(\d+) probes=(\d+)", out)
        viol, st = validate_trace(trace)
        n, ops = _count_ops(trace)
        res = {"seed": cseed, "events": n, "probes": int(m.group(2)) if m else 0, "ops": ops, "tlc": st, "outcomes": _outcome_stats(trace),
               "violations": _collect(trace, viol, {"engine": label, "seed": cseed, "runs": runs, "steps": steps,
                                                   "features": list(feats), "release": release, "args": list(extra_args), "shape": shape}),
               "samples": _sample_events(trace, 2) if i == 0 else []}
        if not viol:
            os.remove(trace)
        return res
    with ThreadPoolExecutor(max_workers=min(chunks, 8)) as ex:
        parts = list(ex.map(one, range(chunks)))
    ops = {}
    for p in parts:
        for k, v in p["ops"].items():
            ops[k] = ops.get(k, 0) + v
    res = {"engine": label, "cfg": cfg_name(feats, release), "tier": tier, "seed": seed,
           "traces": chunks, "runs": chunks * runs, "events": sum(p["events"] for p in parts),
           "probes": sum(p["probes"] for p in parts), "ops": ops,
           "probe_classes": {k: sum(p["tlc"].get("probe_classes", {}).get(k, 0) for p in parts) for k in
                             ("entity_live", "entity_stale", "entity_forged", "direct_current", "direct_dead", "direct_foreign")},
           "outcomes": {k: (max if k == "worlds_max" else sum)(p["outcomes"][k] for p in parts) for k in parts[0]["outcomes"]},
           "tlc_states": sum(p["tlc"].get("distinct", 0) for p in parts),
           "tlc_transitions": sum(p["tlc"].get("generated", 0) for p in parts),
           "violations": [v for p in parts for v in p["violations"]],
           "samples": [s for p in parts for s in p["samples"]],
           "wall_s": round(time.time() - t0, 1), "cached": False}
    cache_put(label, key, res)
    return res


def boundary(tier, seed, features=(), release=False):
    """Deterministic overflow histories (preset hook) validated against the contract."""
    feats = tuple(sorted(features))
    key = key_of("boundary", repo_hash(), verif_hash(), feats, release)
    c = cache_get("boundary", key)
    if c:
        c["cached"] = True
        return c
    t0 = time.time()
    binp = build_harness(feats, release)
    trace = os.path.join(_trace_dir(), "boundary-%s.ndjson" % key[:10])
    rc, out, dt = sh([binp, "boundary", "--out", trace], timeout=900, check=False)
    if rc != 0:
        with open(trace, "a") as f:
            f.write(json.dumps({"op": "crash", "phase": "process", "during": "boundary", "signal": -rc if rc < 0 else rc}) + "\n")
    viol, st = validate_trace(trace)
    n, ops = _count_ops(trace)
    panics = 0
    with open(trace) as f:
        for line in f:
            if '"out":["p"]' in line:
                panics += 1
    res = {"engine": "boundary", "cfg": cfg_name(feats, release), "traces": 1, "runs": ops.get("reset", 0),
           "events": n, "ops": ops, "panic_outcomes": panics,
           "tlc_states": st.get("distinct", 0), "tlc_transitions": st.get("generated", 0),
           "violations": _collect(trace, viol, {"engine": "boundary", "features": list(feats), "release": release}),
           "samples": _sample_events(trace, 2), "wall_s": round(time.time() - t0, 1), "cached": False}
    if not viol:
        os.remove(trace)
    cache_put("boundary", key, res)
    return res


def _nest_sexpr(hist):
    """Turn a BorrowMC history into the s-expression forest the harness executes."""
    out, depth = [], 0
    for ev in hist:
        if ev[0] == "enter":
            x, outcome = ev[1], ev[2]
            out.append("(%s %s %s %s %d" % (x["k"], x["a"], x["c"], x["m"], x["e"]))
            depth += 1
            leaf = not ev[4]   # no body: clone, empty iteration, refused
            if leaf:
                out.append(")")
                depth -= 1
        else:
            out.append(")")
            depth -= 1
    out.append(")" * depth)
    return " ".join(out)

def borrow(tier, seed):
    """C11: BorrowMC (TLC) enumerates every access nesting; each is executed on the real crate."""
    key = key_of("borrow", repo_hash(), verif_hash(), tier)
    c = cache_get("borrow", key)
    if c:
        c["cached"] = True
        return c
    t0 = time.time()
    binp = build_harness((), False)
    depth = 2 if tier == "quick" else 3
    total = {"scripts": 0, "states": 0, "trans": 0, "panic_expected": 0, "nested": 0}
    violations, samples = [], []
    for cfgname, empty in (("NoneEmpty", False), ("ArEmpty", True)):
        cfg = os.path.join(BUILD, "tlc", "BorrowMC-%s-%d.cfg" % (cfgname, depth))
        os.makedirs(os.path.dirname(cfg), exist_ok=True)
        with open(cfg, "w") as f:
            f.write("SPECIFICATION Spec\nCONSTANTS\n  MaxEnters = %d\n  MaxDepth = %d\n  ArchCols <- DefArchCols\n"
                    "  Empty <- %s\n  Ents <- TwoEnts\n  ZstCols <- DefZst\nINVARIANTS CellsMatchStack NoAliasing FreeAtRest Export\nCHECK_DEADLOCK FALSE\n"
                    % (depth, depth, cfgname))
        rc, out, dt = run_tlc("BorrowMC", cfg=cfg, workers=4 if tier == "quick" else 8, timeout=3000)
        if "No error has been found" not in out:
            raise ToolError("BorrowMC failed:\n" + out[-3000:])
        st = tlc_stats(out)
        total["states"] += st.get("distinct", 0)
        total["trans"] += st.get("generated", 0)
        hists = []
        for m in re.finditer(r'<<"NEST", "(.*)">>', out):
            hists.append(json.loads(m.group(1).encode().decode("unicode_escape")))
        sfile = os.path.join(_trace_dir(), "nest-%s-%s.txt" % (cfgname, key[:8]))
        with open(sfile, "w") as f:
            for h in hists:
                f.write(_nest_sexpr(h) + "\n")
        ofile = sfile + ".out"
        rc, o2, dt = sh([binp, "nest", "--in", sfile, "--out", ofile] + (["--ar-empty"] if empty else []), timeout=3000, check=False)
        if rc != 0:
            violations.append({"tags": ["C11", "C03", "C10"], "what": "harness died executing borrow nestings (rc=%d)" % rc,
                               "at": 0, "event": {}, "origin": {"engine": "borrow", "cfg": cfgname}})
            continue
        with open(ofile) as f:
            obs = [json.loads(l) for l in f]
        if len(obs) != len(hists):
            raise ToolError("nest: %d scripts, %d results" % (len(hists), len(obs)))
        for i, (h, o) in enumerate(zip(hists, obs)):
            exp = [[e[2], e[3]] for e in h if e[0] == "enter"]
            total["scripts"] += 1
            if any(e[0] == "panic" for e in exp):
                total["panic_expected"] += 1
            if len(exp) > 1:
                total["nested"] += 1
            what = None
            if o["obs"] != exp:
                got_p = [x[0] for x in o["obs"]]
                exp_p = [x[0] for x in exp]
                if got_p != exp_p:
                    what = "access granted/refused differently from the RefCell matrix: expected %s, observed %s" % (exp_p, got_p)
                else:
                    what = "nested accesses observed other values than the model: expected %s, observed %s" % (exp, o["obs"])
            elif not all(o["free"]) or not o["clone_ok"]:
                what = "a column is still borrowed after the accesses ended (free=%s clone_ok=%s)" % (o["free"], o["clone_ok"])
            # a panic that unwinds out of a component's Clone::clone in the middle of clone() (script
            # with clone as OUTER access and a refused inner access) may leak what was cloned so far --
            # the same allowance the contract makes for injected Clone faults; anomalies stay forbidden
            mid_clone_panic = any(e[0] == "enter" and e[1]["k"] == "cb" for e in h) and any(e[0] == "enter" and e[2] == "panic" for e in h)
            if (o.get("leaked", 0) or o.get("zleaked", 0)) and mid_clone_panic and not o.get("anomalies", 0):
                pass
            elif o.get("leaked", 0) or o.get("zleaked", 0) or o.get("anomalies", 0):
                violations.append({"tags": ["C04", "C10"], "what": "component values leaked or mis-dropped around runtime-borrowed accesses (a refused clone must not leave clones behind): leaked=%s zero-sized=%s anomalies=%s" % (o.get("leaked"), o.get("zleaked"), o.get("anomalies")),
                                   "at": i, "event": {"script": _nest_sexpr(h), "observed": o}, "origin": {"engine": "borrow", "cfg": cfgname, "depth": depth}})
            if what:
                violations.append({"tags": ["C11"], "what": what, "at": i,
                                   "event": {"script": _nest_sexpr(h), "expected": exp, "observed": o},
                                   "origin": {"engine": "borrow", "cfg": cfgname, "depth": depth}})
            if len(samples) < 3 and len(exp) == depth and i % 997 == 3:
                samples.append({"script": _nest_sexpr(h), "expected": exp, "observed": o["obs"]})
        os.remove(sfile)
        os.remove(ofile)
    res = {"engine": "borrow", "cfg": "dbg", "tier": tier, "traces": total["scripts"], "depth": depth,
           "scripts": total["scripts"], "scripts_with_refusal": total["panic_expected"], "scripts_multi_access": total["nested"],
           "tlc_states": total["states"], "tlc_transitions": total["trans"],
           "violations": cap_violations(violations), "n_violations": len(violations), "samples": samples,
           "wall_s": round(time.time() - t0, 1), "cached": False, "exhaustive": True}
    cache_put("borrow", key, res)
    return res


def handles(tier, seed):
    """C14: HandleMC (laws exhaustively at reduced widths + boundary classes at real widths) replayed."""
    import random
    key = key_of("handles", repo_hash(), verif_hash(), tier, seed)
    c = cache_get("handles", key)
    if c:
        c["cached"] = True
        return c
    t0 = time.time()
    binp = build_harness((), False)
    rc, out, dt = run_tlc("HandleMC", workers=4, timeout=1200)
    if "No error has been found" not in out:
        raise ToolError("HandleMC failed:\n" + out[-3000:])
    st = tlc_stats(out)
    classes = [json.loads(m.group(1).encode().decode("unicode_escape")) for m in re.finditer(r'<<"HCLASS", "(.*)">>', out)]
    rnd = random.Random(seed)
    per_class = 20 if tier == "quick" else 2000
    rows = []   # (pos, id, ghi, glo, class index)
    for ci, c_ in enumerate(classes):
        rows.append((c_["pos"], c_["id"], c_["gen"][0], c_["gen"][1], ci))
        if c_["pos"] in (2, ):      # interior representative: add random members of the class
            for _ in range(per_class):
                pos = rnd.randrange(3, (1 << 24) - 2)
                if c_["gen"] == [0, 0]:
                    g = (0, 0)
                else:
                    g = (rnd.randrange(0, 65536), rnd.randrange(0, 65536))
                    if g == (0, 0):
                        g = (0, 7)
                rows.append((pos, c_["id"], g[0], g[1], ci))
    tfile = os.path.join(_trace_dir(), "handles-%s.txt" % key[:8])
    with open(tfile, "w") as f:
        for r in rows:
            f.write("%d %d %d %d\n" % r[:4])
    ofile = tfile + ".out"
    rc, o2, dt = sh([binp, "handles", "--in", tfile, "--out", ofile], timeout=1800, check=False)
    violations = []
    if rc != 0:
        violations.append({"tags": ["C14", "C03"], "what": "harness died running handle conversions (rc=%d)" % rc, "at": 0, "event": {}, "origin": {"engine": "handles"}})
        obs = []
    else:
        obs = [json.loads(l) for l in open(ofile)]
    ids_order = [3, 4, 255, 0]   # Ap, Aq, Ar, Aw
    seen = set()
    checked = 0
    for r, o in zip(rows, obs[:-1] if obs else []):
        cls = classes[r[4]]
        exp_try = [cls["try_from"][str(i)] for i in ids_order]
        bad = []
        if o["from_raw"] != cls["from_raw"]:
            bad.append("from_raw %s expected %s" % (o["from_raw"], cls["from_raw"]))
        if o["from_raw"] and cls["from_raw"]:
            if not o["raw_rt"]: bad.append("from_raw(raw(h)) != h")
            if o["aid"] != cls["archetype_id"]: bad.append("archetype_id %d expected %d" % (o["aid"], cls["archetype_id"]))
            if o["try"] != exp_try: bad.append("TryFrom per archetype %s expected %s" % (o["try"], exp_try))
            if o["from_any_panics"] != [not x for x in exp_try]: bad.append("from_any panics %s expected %s" % (o["from_any_panics"], [not x for x in exp_try]))
            if not o["typed_rt"]: bad.append("typed -> any round trip not exact")
            if not o["typed_aid"]: bad.append("typed archetype_id/from_any disagree")
            if o["sel_arch"] != cls["select"] or o["sel_ent"] != cls["select"] or o["sel_id"] != cls["select"]:
                bad.append("Select* accepted=%s/%s/%s expected %s" % (o["sel_arch"], o["sel_ent"], o["sel_id"], cls["select"]))
            if cls["select"] and o["sel_arch_id"] != cls["archetype_id"]: bad.append("SelectArchetype id %d" % o["sel_arch_id"])
            if not o["sel_ent_faithful"]: bad.append("SelectEntity variant does not carry the same handle")
            if not o["eq_hash"]: bad.append("Eq/Hash/HashSet/HashMap inconsistent")
        if o.get("errors_ok") is False:
            bad.append("a failing conversion does not fail as documented (type mismatch: InvalidEntityType; zero generation: InvalidRawEntity)")
            k = r[:4]
            if o["first"] != (k not in seen): bad.append("HashSet first-insert %s for a %s value" % (o["first"], "new" if k not in seen else "repeated"))
            seen.add(k)
        checked += 1
        for b in bad:
            violations.append({"tags": ["C14"], "what": b, "at": checked, "event": {"pos": r[0], "id": r[1], "gen": [r[2], r[3]], "observed": o}, "origin": {"engine": "handles"}})
    if obs:
        for d in obs[-1]["direct"]:
            a = d["a"]
            want_try = [i == a for i in range(4)]
            if d["aid"] != ids_order[a] or d["typed_aid"] != ids_order[a] or d["ent_aid"] != ids_order[a] or d["const_id"] != ids_order[a] or d["try"] != want_try \
               or d["from_any_panics"] != [not x for x in want_try] or not d["rt"] or d["sel"] != a or not d["eq"]:
                violations.append({"tags": ["C14", "C15"], "what": "direct-handle conversions of archetype %d disagree with the table" % a, "at": 0, "event": d, "origin": {"engine": "handles"}})
        if obs[-1].get("direct_eq_ok") is False:
            violations.append({"tags": ["C14"], "what": "direct handles: == / Hash disagree with equality of the (key, version) pair over a churn history (handles differing in both fields)", "at": 0, "event": {}, "origin": {"engine": "handles"}})
        if obs[-1].get("step_ok") is False:
            violations.append({"tags": ["C07", "C06"], "what": "EcsStep / EcsStepDestroy: Default, From<()>, From<EcsStep> or is_destroy() disagree with the documented meaning of the four decisions", "at": 0, "event": {}, "origin": {"engine": "handles"}})
        if obs[-1].get("err_values_ok") is False:
            violations.append({"tags": ["C14"], "what": "EcsError values: Clone / PartialEq / Display / Error disagree (equal after clone, distinct variants distinct)", "at": 0, "event": {}, "origin": {"engine": "handles"}})
        if obs[-1].get("direct_errors_ok") is False:
            violations.append({"tags": ["C14"], "what": "a direct-handle conversion that must fail (undeclared or other archetype id) does not fail as documented (InvalidEntityType)", "at": 0, "event": {}, "origin": {"engine": "handles"}})
    for p in (tfile, ofile):
        if os.path.exists(p):
            os.remove(p)
    res = {"engine": "handles", "tier": tier, "seed": seed, "classes": len(classes), "values": len(rows), "checked": checked,
           "conversions_per_value": 30, "direct_archetypes": 4, "traces": len(rows),
           "tlc_states": st.get("distinct", 0), "tlc_transitions": st.get("generated", 0), "laws_universe": 8 * 8 * 4,
           "violations": cap_violations(violations), "n_violations": len(violations),
           "samples": [{"class": classes[i], "value": list(rows[i][:4])} for i in (0, 57, 211) if i < len(classes)],
           "wall_s": round(time.time() - t0, 1), "cached": False}
    cache_put("handles", key, res)
    return res


MC_TAGS = {"C03_EntityInBounds": ["C03"], "RepInv": ["C12", "C01", "C10"], "GhostOk": ["C01", "C06"], "C01_ResolveIffLive": ["C01", "C03"],
           "C02_OwnValue": ["C02"], "C03_DirectInBounds": ["C03"], "C08_FreeIsNewer": ["C08"], "C09_Direct": ["C09"],
           "C12_Len": ["C12"], "NoBad": ["C08", "C10", "C12"],
           "AbsLookupAgrees": ["C01"], "Refines": ["C01", "C08", "C09", "C12"]}

def storage_mc(tier, seed):
    """TLC exhaustive exploration of the implementation-level slot-map model (design-level truth;
    bound to the code by the tour and by trace validation)."""
    key = key_of("storage_mc", verif_hash(), tier)
    c = cache_get("storage_mc", key)
    if c:
        c["cached"] = True
        return c
    t0 = time.time()
    confs = [dict(MaxCap=4, MaxSlotVer=3, MaxArchVer=4, Wrapping="FALSE", DebugAsserts="TRUE", InitCaps="{0, 1, 2, 3}"),
             dict(MaxCap=3, MaxSlotVer=2, MaxArchVer=3, Wrapping="TRUE", DebugAsserts="FALSE", InitCaps="{0, 1, 3}")]
    if tier == "thorough":
        confs = [dict(MaxCap=6, MaxSlotVer=3, MaxArchVer=5, Wrapping="FALSE", DebugAsserts="TRUE", InitCaps="{0, 1, 2, 3, 5}"),
                 dict(MaxCap=5, MaxSlotVer=4, MaxArchVer=4, Wrapping="FALSE", DebugAsserts="FALSE", InitCaps="{0, 2, 4}"),
                 dict(MaxCap=4, MaxSlotVer=3, MaxArchVer=4, Wrapping="TRUE", DebugAsserts="TRUE", InitCaps="{0, 1, 2, 3}")]
    states = trans = 0
    violations = []
    runs = []
    for cf in confs:
        cfg = os.path.join(BUILD, "tlc", "StorageMC-%s.cfg" % key_of(cf)[:8])
        os.makedirs(os.path.dirname(cfg), exist_ok=True)
        wrapping = cf["Wrapping"] == "TRUE"
        with open(cfg, "w") as f:
            f.write("SPECIFICATION Spec\nCONSTANTS\n" + "".join("  %s = %s\n" % kv for kv in cf.items()) + "  Pinned = FALSE\n  Edges = FALSE\n  TrackDirect = TRUE\n")
            if wrapping:
                # history ghosts are unbounded under wrapping; only structural / in-bounds invariants, states identified by st
                f.write("INVARIANTS RepInv C03_DirectInBounds C03_EntityInBounds\nVIEW StView\nCHECK_DEADLOCK FALSE\n")
            else:
                f.write("INVARIANTS RepInv GhostOk C01_ResolveIffLive C02_OwnValue C03_DirectInBounds C03_EntityInBounds C08_FreeIsNewer C09_Direct C12_Len NoBad AbsLookupAgrees\nPROPERTY Refines\nCHECK_DEADLOCK FALSE\n")
        rc, out, dt = run_tlc("StorageMC", cfg=cfg, workers=8, timeout=600 if tier == "quick" else 7000)
        st = tlc_stats(out)
        states += st.get("distinct", 0)
        trans += st.get("generated", 0)
        runs.append(dict(cf, distinct=st.get("distinct", 0), generated=st.get("generated", 0), depth=st.get("depth", 0), wall_s=round(dt, 1)))
        if "No error has been found" not in out:
            m = re.search(r"Invariant (\w+) is violated", out)
            if not m and re.search(r"Action property .* of module AbsMap is violated", out):
                m = re.match("(Refines)", "Refines")
            if not m:
                raise ToolError("StorageMC failed:\n" + out[-3000:])
            violations.append({"tags": MC_TAGS.get(m.group(1), ["TOOL"]), "what": "model invariant %s violated (specification-level counterexample)" % m.group(1),
                               "at": 0, "event": {"config": cf, "tlc_tail": out[-1500:]}, "origin": {"engine": "storage_mc"}})
    # the abstract machine the storage model is shown to implement, checked on its own
    rc, out, dt = run_tlc("AbsMapMC", workers=2, timeout=300)
    if "No error has been found" not in out:
        raise ToolError("AbsMapMC failed:\n" + out[-2000:])
    ast = tlc_stats(out)
    runs.append(dict(model="AbsMapMC", distinct=ast.get("distinct", 0), generated=ast.get("generated", 0), wall_s=round(dt, 1)))
    res = {"engine": "storage_mc", "tier": tier, "traces": 0, "runs": runs, "tlc_states": states, "tlc_transitions": trans,
           "violations": violations, "samples": [{"model": "StorageMC", "config": runs[0],
                                                    "invariants": sorted(MC_TAGS)}],
           "wall_s": round(time.time() - t0, 1), "cached": False, "exhaustive_within_bounds": True}
    cache_put("storage_mc", key, res)
    return res


def tour(tier, seed, features=(), release=False):
    """Spec -> code: every state-changing transition of the slot-map model replayed on the real crate."""
    import tour as T
    feats = tuple(sorted(features))
    key = key_of("tour", repo_hash(), verif_hash(), tier, feats, release)
    c = cache_get("tour", key)
    if c:
        c["cached"] = True
        return c
    t0 = time.time()
    binp = build_harness(feats, release)
    if tier == "quick":
        consts = dict(MaxCap=6, MaxSlotVer=3, MaxArchVer=3, InitCaps="{0, 1, 2, 3}")
        caps, archs = [0, 1, 2, 3], [0, 2]
    else:
        consts = dict(MaxCap=6, MaxSlotVer=3, MaxArchVer=4, InitCaps="{0, 1, 2, 3, 5}")
        caps, archs = [0, 1, 2, 3, 5], [0, 1, 2, 3]
    edges_all, st = T.export_edges(consts)
    edges = [e for e in edges_all if T.real_edge(e)]
    paths, unreachable = T.plan_paths(edges, caps)
    covered = len({ei for p in paths for ei in p})
    violations, parts = [], []
    def one(a):
        lines, expect = T.render(edges, paths, a, caps)
        sfile = os.path.join(_trace_dir(), "tour-%s-%d.txt" % (key[:8], a))
        with open(sfile, "w") as f:
            f.write("\n".join(lines) + "\n")
        trace = sfile + ".ndjson"
        rc, out, dt = sh([binp, "exec", "--in", sfile, "--out", trace], timeout=3000, check=False)
        if rc != 0:
            with open(trace, "a") as f:
                f.write(json.dumps({"op": "crash", "phase": "process", "during": "tour", "signal": -rc if rc < 0 else rc}) + "\n")
        viol, tst = validate_trace(trace, timeout=6000)
        matched, drift, first = T.compare(trace, expect, a)
        n, ops = _count_ops(trace)
        res = {"a": a, "script_lines": len(lines), "events": n, "ops": ops, "tlc": tst, "matched": matched, "drift": drift, "first_drift": first,
               "violations": _collect(trace, viol, {"engine": "tour", "archetype": a, "script": sfile}),
               "samples": [{"script_head": lines[:12]}] if a == archs[0] else []}
        if not viol:
            os.remove(trace)
            os.remove(sfile)
        return res
    with ThreadPoolExecutor(max_workers=4) as ex:
        parts = list(ex.map(one, archs))
    drift = sum(p["drift"] for p in parts)
    if drift:
        log("DRIFT: the real storage differs from the implementation-level model after %d steps (not a violation): %s"
            % (drift, json.dumps([p["first_drift"] for p in parts if p["first_drift"]][:1])[:600]))
    res = {"engine": "tour", "cfg": cfg_name(feats, release), "tier": tier, "model": consts,
           "model_states": st.get("distinct", 0), "model_transitions_generated": st.get("generated", 0),
           "edges_exported": len(edges_all), "edges_real": len(edges), "edges_covered": covered, "edges_unreachable": unreachable,
           "paths": len(paths), "archetypes": archs, "traces": len(paths) * len(archs),
           "events": sum(p["events"] for p in parts), "impl_states_matched": sum(p["matched"] for p in parts), "drift": drift,
           "first_drift": next((p["first_drift"] for p in parts if p["first_drift"]), None),
           "tlc_states": st.get("distinct", 0) + sum(p["tlc"].get("distinct", 0) for p in parts),
           "tlc_transitions": st.get("generated", 0) + sum(p["tlc"].get("generated", 0) for p in parts),
           "violations": [v for p in parts for v in p["violations"]], "samples": [s for p in parts for s in p["samples"]],
           "exhaustive": drift == 0 and unreachable == 0, "wall_s": round(time.time() - t0, 1), "cached": False}
    cache_put("tour", key, res)
    return res


def capacity(tier, seed):
    """C12 at the real 2^24 limit: bulk events from a release build validated against Capacity.tla."""
    key = key_of("capacity", repo_hash(), verif_hash(), tier)
    c = cache_get("capacity", key)
    if c:
        c["cached"] = True
        return c
    t0 = time.time()
    rc, out, dt = run_tlc("CapacityMC", workers=2, timeout=600)
    if "No error has been found" not in out:
        raise ToolError("CapacityMC failed:\n" + out[-2000:])
    st = tlc_stats(out)
    binp = build_harness((), True)
    trace = os.path.join(_trace_dir(), "bigcap-%s.ndjson" % key[:10])
    rc, o, dt = sh([binp, "bigcap", "--out", trace] + (["--thorough"] if tier == "thorough" else []), timeout=1800, check=False)
    violations = []
    if rc != 0:
        violations.append({"tags": ["C12", "C10", "C03"], "what": "the process died during the real-limit capacity run (rc=%d)" % rc, "at": 0,
                           "event": {"last": open(trace).read()[-400:] if os.path.exists(trace) else ""}, "origin": {"engine": "capacity"}})
        viol, tst = [], {}
    else:
        viol, tst = validate_trace(trace, module="TraceCapacity")
    n, ops = _count_ops(trace)
    violations += _collect(trace, viol, {"engine": "capacity"})
    created = 0
    with open(trace) as f:
        evs = [json.loads(l) for l in f]
    created = sum(e.get("done", 0) for e in evs)
    res = {"engine": "capacity", "tier": tier, "traces": 1, "events": n, "ops": ops, "real_creations": created, "real_max": 1 << 24,
           "tlc_states": st.get("distinct", 0) + tst.get("distinct", 0), "tlc_transitions": st.get("generated", 0) + tst.get("generated", 0),
           "violations": violations, "samples": [ev for ev in evs[5:8]], "wall_s": round(time.time() - t0, 1), "cached": False}
    if not violations:
        os.remove(trace)
    cache_put("capacity", key, res)
    return res


def inductive(tier, seed):
    """Apalache: the slot-map invariant is inductive with unbounded (symbolic) generations."""
    key = key_of("inductive", verif_hash(), tier)
    c = cache_get("inductive", key)
    if c:
        c["cached"] = True
        return c
    t0 = time.time()
    cinit = "ConstInit" if tier == "quick" else "ConstInit10"
    obligations = [("base: Init => IndInv", ["--init=Init", "--inv=IndInv", "--length=0"], "NoError"),
                   ("step: IndInv /\\ Next => IndInv'", ["--init=IndInit", "--inv=IndInv", "--length=1"], "NoError"),
                   ("corollaries: IndInv => FreshOnCreate /\\ StaleRejected /\\ FreeCovers", ["--init=IndInit", "--inv=Corollaries", "--length=0"], "NoError"),
                   ("vacuity guard: a false invariant is refuted by the step", ["--init=IndInit", "--inv=Bogus", "--length=1"], "Error")]
    def run(i):
        name, args, want = obligations[i]
        outdir = os.path.join(BUILD, "apa", "o%d-%d" % (os.getpid(), i))
        cmd = ["timeout", "3000", "apalache-mc", "check", "--cinit=" + cinit] + args + ["--out-dir=" + outdir, os.path.join(SPEC, "StorageInd.tla")]
        rc, out, dt = sh(cmd, cwd=os.path.join(BUILD, "apa"), check=False, timeout=3100)
        shutil.rmtree(outdir, ignore_errors=True)
        m = re.search(r"The outcome is: (\w+)", out)
        got = m.group(1) if m else "none"
        return {"obligation": name, "expected": want, "outcome": got, "ok": got == want, "wall_s": round(dt, 1), "tail": "" if got == want else out[-1200:]}
    os.makedirs(os.path.join(BUILD, "apa"), exist_ok=True)
    with ThreadPoolExecutor(max_workers=4) as ex:
        results = list(ex.map(run, range(len(obligations))))
    violations = []
    for r in results:
        if not r["ok"]:
            if r["outcome"] in ("NoError", "Error"):
                violations.append({"tags": ["C01", "C08", "C12"], "what": "inductive obligation failed: %s (outcome %s)" % (r["obligation"], r["outcome"]),
                                   "at": 0, "event": r, "origin": {"engine": "inductive"}})
            else:
                raise ToolError("apalache did not decide %s:\n%s" % (r["obligation"], r["tail"]))
    res = {"engine": "inductive", "tier": tier, "traces": 0, "max_cap": 6 if tier == "quick" else 10, "generations": "unbounded (symbolic Int)",
           "obligations": len(obligations), "discharged": sum(1 for r in results if r["ok"]), "results": [{k: v for k, v in r.items() if k != "tail"} for r in results],
           "tlc_states": 0, "tlc_transitions": 0, "violations": violations,
           "samples": [{"obligation": results[1]["obligation"], "outcome": results[1]["outcome"]}], "wall_s": round(time.time() - t0, 1), "cached": False}
    cache_put("inductive", key, res)
    return res


def monitor(tier, seed):
    """Memory-level monitor (invisible to TLA+): the random histories and the tour scripts' kind of
    operations re-executed under valgrind memcheck; invalid accesses, double frees and leaks are violations."""
    key = key_of("monitor", repo_hash(), verif_hash(), tier, seed)
    c = cache_get("monitor", key)
    if c:
        c["cached"] = True
        return c
    t0 = time.time()
    binp = build_harness((), False)
    binr = build_harness((), True)
    # (name, harness args, valgrind args, runs, binary). The release build matters: debug assertions
    # stop out-of-bounds positions before the unchecked access they guard.
    runs = [("debug, no faults, leak check", ["--no-faults"], ["--leak-check=full", "--errors-for-leak-kinds=definite,indirect"], 6 if tier == "quick" else 60, binp),
            ("debug, fault injection, access check", [], ["--leak-check=no"], 6 if tier == "quick" else 60, binp),
            ("release, fault injection, access check", [], ["--leak-check=no"], 16 if tier == "quick" else 120, binr)]
    violations, parts = [], []
    def one(i):
        name, hargs, vargs, nruns, binx = runs[i]
        trace = os.path.join(_trace_dir(), "mon-%s-%d.ndjson" % (key[:8], i))
        cmd = ["valgrind", "-q", "--error-exitcode=9"] + vargs + [binx, "drive", "--seed", str(seed * 77 + i), "--runs", str(nruns), "--steps", "45", "--out", trace] + hargs
        rc, out, dt = sh(cmd, timeout=3000, check=False)
        n = 0
        if os.path.exists(trace):
            n, _ = _count_ops(trace)
            os.remove(trace)
        if os.path.exists(trace + ".cur"):
            os.remove(trace + ".cur")
        return {"name": name, "rc": rc, "events": n, "wall_s": round(dt, 1), "tail": out[-1500:] if rc != 0 else ""}
    with ThreadPoolExecutor(max_workers=3) as ex:
        parts = list(ex.map(one, range(len(runs))))
    for p in parts:
        if p["rc"] != 0:
            violations.append({"tags": ["C03", "C04", "C10"], "what": "valgrind memcheck reports an error (%s, rc=%d)" % (p["name"], p["rc"]),
                               "at": 0, "event": {"valgrind": p["tail"]}, "origin": {"engine": "monitor", "seed": seed}})
    res = {"engine": "monitor", "tier": tier, "seed": seed, "traces": len(runs), "events": sum(p["events"] for p in parts),
           "runs": [{k: v for k, v in p.items() if k != "tail"} for p in parts], "tlc_states": 0, "tlc_transitions": 0,
           "violations": violations, "samples": [], "wall_s": round(time.time() - t0, 1), "cached": False}
    cache_put("monitor", key, res)
    return res


def miri(tier, seed):
    """Memory-model monitor (invisible to TLA+): short random histories of the same driver executed by
    the Miri interpreter (nightly), which checks every access of the crate's unsafe code against the
    Rust abstract machine (uninitialised reads, out-of-bounds inside an allocation, dangling and
    misaligned references, Stacked Borrows, invalid values). Slow: about 10 s per event."""
    key = key_of("miri", repo_hash(), verif_hash(), tier, seed)
    c = cache_get("miri", key)
    if c:
        c["cached"] = True
        return c
    t0 = time.time()
    d = os.path.join(BUILD, "miri")
    os.makedirs(os.path.join(d, ".cargo"), exist_ok=True)
    with open(os.path.join(d, "Cargo.toml"), "w") as f:
        f.write('[package]\nname = "gvh"\nversion = "0.0.0"\nedition = "2021"\n\n[dependencies]\ngecs = { path = "%s" }\n\n'
                '[features]\nevents = ["gecs/events"]\nwrapping_version = ["gecs/wrapping_version"]\n32_components = ["gecs/32_components"]\n\n'
                '[[bin]]\nname = "gvh"\npath = "%s"\n\n[workspace]\n' % (REPO, os.path.join(HARNESS, "main.rs")))
    with open(os.path.join(d, ".cargo", "config.toml"), "w") as f:
        f.write('[net]\noffline = true\n[build]\nrustflags = ["--cfg", "gecs_verif", "-Awarnings"]\ntarget-dir = "target"\n')
    shutil.copy(os.path.join(REPO, "Cargo.lock"), os.path.join(d, "Cargo.lock"))
    env = {"MIRIFLAGS": "-Zmiri-disable-isolation -Zmiri-ignore-leaks"}
    nruns = 2 if tier == "quick" else 6
    def one(i):
        trace = os.path.join(_trace_dir(), "miri-%s-%d.ndjson" % (key[:8], i))
        args = ["drive", "--seed", str(seed * 131 + i), "--runs", "1", "--steps", "14" if tier == "quick" else "20", "--max-probe", "1", "--out", trace]
        if i % 2 == 1:
            args.append("--no-faults")
        try:
            # the interpreter needs about 10 s per event and more for every probe; a run that does not
            # finish in its budget is simply not counted (Miri is a supplement, never the deciding engine)
            rc, out, dt = sh(["timeout", "-k", "10", "3000", "cargo", "+nightly", "miri", "run", "-q", "--"] + args, cwd=d, env=env, timeout=3100, check=False)
        except ToolError:
            rc, out, dt = 124, "", 3100.0
        n = 0
        if os.path.exists(trace):
            n, _ = _count_ops(trace)
            os.remove(trace)
        if os.path.exists(trace + ".cur"):
            os.remove(trace + ".cur")
        return {"i": i, "rc": rc, "events": n, "wall_s": round(dt, 1), "out": out}
    with ThreadPoolExecutor(max_workers=nruns) as ex:
        parts = list(ex.map(one, range(nruns)))
    violations = []
    for p in parts:
        o = p.pop("out")
        if "Undefined Behavior" in o or "error: unsupported operation" in o and "gecs" in o:
            at = o.find("Undefined Behavior")
            violations.append({"tags": ["C03", "C04", "C10"], "what": "Miri reports undefined behaviour in a history of safe API calls",
                               "at": 0, "event": {"miri": o[max(0, at - 300):at + 2500]}, "origin": {"engine": "miri", "seed": seed, "run": p["i"]}})
        elif p["rc"] not in (0, 124, 137) and ("could not compile" in o or "error: no such command" in o or p["events"] == 0):
            raise ToolError("miri run failed: " + o[-2000:])
    res = {"engine": "miri", "tier": tier, "seed": seed, "traces": nruns, "events": sum(p["events"] for p in parts),
           "runs": parts, "tlc_states": 0, "tlc_transitions": 0,
           "violations": violations, "samples": [], "wall_s": round(time.time() - t0, 1), "cached": False}
    cache_put("miri", key, res)
    return res


def loops(tier, seed):
    """C06/C07 spec -> code: every (population, decision function, loop kind) of LoopsMC replayed."""
    key = key_of("loops", repo_hash(), verif_hash(), tier)
    c = cache_get("loops", key)
    if c:
        c["cached"] = True
        return c
    t0 = time.time()
    binp = build_harness((), False)
    maxn = 2 if tier == "quick" else 3
    cfg = os.path.join(BUILD, "tlc", "LoopsMC-%d.cfg" % maxn)
    os.makedirs(os.path.dirname(cfg), exist_ok=True)
    with open(cfg, "w") as f:
        f.write("SPECIFICATION Spec\nCONSTANT MaxN = %d\nINVARIANTS VisitOnce AllVisitedUnlessBreak StopsAtBreak DestroysExactlyFlagged SurvivorsIntact Export\nCHECK_DEADLOCK FALSE\n" % maxn)
    rc, out, dt = run_tlc("LoopsMC", cfg=cfg, workers=4, timeout=3000)
    if "No error has been found" not in out:
        raise ToolError("LoopsMC failed:\n" + out[-3000:])
    st = tlc_stats(out)
    items = [json.loads(m.group(1).encode().decode("unicode_escape")) for m in re.finditer(r'<<"LOOP", "(.*)">>', out)]
    nchunks = 4 if tier == "quick" else 12
    def render(chunk, ci):
        lines, expect = [], {}
        for n, it in enumerate(chunk):
            variant = (n + ci) % 3
            lines.append("reset")
            extra = 1 if variant == 1 else 0
            caps = [it["na"] + extra + (2 if variant == 2 else 0), it["nb"] + extra, 0, 0]
            lines.append("init 0 %d %d %d %d" % tuple(caps))
            h = 0
            label = {}
            for ai, (arch, cnt) in enumerate((("A", it["na"]), ("B", it["nb"]))):
                hs = []
                if extra and cnt > 0:
                    lines.append("create 0 %d %d 0" % (ai, n % 4)); xh = h; h += 1
                for k in range(cnt):
                    lines.append("create 0 %d %d %d" % (ai, (n + k) % 4, (n + k) % 2 if variant != 2 else 1)); hs.append(h); h += 1
                if extra and cnt > 0:
                    lines.append("destroy 0 H%d %s %s" % (xh, "e" if n % 2 else "a", "w" if n % 3 else "a"))
                    hs = [hs[-1]] + hs[:-1]     # swap-remove of dense index 0 moved the last one to the front
                for k, hh in enumerate(hs, start=1):
                    label[(arch, k)] = hh
            decs = []
            for arch, ds in (("A", it["decA"]), ("B", it["decB"])):
                for k, d in enumerate(ds, start=1):
                    decs.append("H%d=%s" % (label[(arch, k)], d))
            mac = "iter_destroy" if it["kind"] == "iter_destroy" else ("iter" if n % 2 else "iter_borrow")
            lines.append("loop 0 0 %s c %s" % (mac, " ".join(decs)))
            expect[len(lines)] = [label[(v[0], v[1])] for v in it["visits"]]
        return lines, expect
    per = (len(items) + nchunks - 1) // nchunks
    def one(ci):
        chunk = items[ci * per:(ci + 1) * per]
        if not chunk:
            return None
        lines, expect = render(chunk, ci)
        sfile = os.path.join(_trace_dir(), "loops-%s-%d.txt" % (key[:8], ci))
        with open(sfile, "w") as f:
            f.write("\n".join(lines) + "\n")
        trace = sfile + ".ndjson"
        rc, o, dt = sh([binp, "exec", "--in", sfile, "--out", trace], timeout=3000, check=False)
        if rc != 0:
            with open(trace, "a") as f:
                f.write(json.dumps({"op": "crash", "phase": "process", "during": "loops", "signal": -rc if rc < 0 else rc}) + "\n")
        viol, tst = validate_trace(trace, timeout=6000)
        # order comparison with the model (a different order is DRIFT, not a violation)
        same = differ = 0
        hs = []
        with open(trace) as f:
            for line in f:
                if line.startswith('{"op":"reset"'):
                    hs = []
                    continue
                if '"sl":' not in line:
                    continue
                ev = json.loads(line)
                if ev["op"] in ("create", "create_within"):
                    hs.append(tuple(ev["out"][1]) if ev["out"][0] == "ok" else None)
                if ev["op"] == "loop" and ev.get("sl") in expect:
                    got = [hs.index(tuple(v["tok"])) if tuple(v["tok"]) in hs else -1 for v in ev["visits"]]
                    if got == expect[ev["sl"]]:
                        same += 1
                    else:
                        differ += 1
        n, ops = _count_ops(trace)
        res = {"events": n, "loops": ops.get("loop", 0), "tlc": tst, "order_same": same, "order_differs": differ,
               "violations": _collect(trace, viol, {"engine": "loops", "script": sfile}), "sample": lines[:9] if ci == 0 else []}
        if not viol:
            os.remove(trace)
            os.remove(sfile)
        return res
    with ThreadPoolExecutor(max_workers=min(nchunks, 8)) as ex:
        parts = [p for p in ex.map(one, range(nchunks)) if p]
    differ = sum(p["order_differs"] for p in parts)
    if differ:
        log("DRIFT: %d loops visit in another order than the index loops of the model (not a violation)" % differ)
    res = {"engine": "loops", "tier": tier, "max_entities_per_archetype": maxn, "behaviours": len(items), "traces": len(items),
           "events": sum(p["events"] for p in parts), "loops_run": sum(p["loops"] for p in parts),
           "visit_order_equal_to_model": sum(p["order_same"] for p in parts), "visit_order_drift": differ,
           "tlc_states": st.get("distinct", 0) + sum(p["tlc"].get("distinct", 0) for p in parts),
           "tlc_transitions": st.get("generated", 0) + sum(p["tlc"].get("generated", 0) for p in parts),
           "violations": [v for p in parts for v in p["violations"]], "samples": [{"script": parts[0]["sample"]}],
           "exhaustive": True, "wall_s": round(time.time() - t0, 1), "cached": False}
    cache_put("loops", key, res)
    return res


def world_tour(tier, seed, features=()):
    """Spec -> code for C13: every transition of the two-world model (clone, clone_from, drop,
    diverging creates/destroys) replayed; both worlds compared with the model after every step."""
    import tour as T
    events = "events" in features
    key = key_of("world_tour", repo_hash(), verif_hash(), tier, features)
    c = cache_get("world_tour", key)
    if c:
        c["cached"] = True
        return c
    t0 = time.time()
    binp = build_harness(tuple(features), False)
    if tier == "quick":
        # with the logs and the destroying loops the events variant has 3.5 times the transitions: one operation less
        consts = dict(MaxCap=6, MaxSlotVer=3, MaxArchVer=4, InitCaps="{0, 2}", MaxOps=5 if events else 6, MaxLen=3)
        caps, archs = [0, 2], [1]
    else:
        consts = dict(MaxCap=6, MaxSlotVer=3, MaxArchVer=4, InitCaps="{0, 1, 2}", MaxOps=6 if events else 7, MaxLen=3)
        caps, archs = [0, 1, 2], [0, 1, 2, 3]
    # with the events feature the model carries the created / destroyed logs and clear_events
    consts["Events"] = "TRUE" if events else "FALSE"
    consts["Loops"] = "TRUE"
    edges_all, st = T.export_world_edges(consts)
    edges = [e for e in edges_all if T.world_real_edge(e)]
    paths, unreachable = T.plan_world_paths(edges, caps, events=events)
    covered = len({ei for p in paths for ei in p})
    nchunk = 4 if len(archs) == 1 else 1     # one archetype: split the paths so that four replays run side by side
    def one(ac):
        a, ci = ac
        lines, expect = T.render_world(edges, paths[ci::nchunk], a)
        sfile = os.path.join(_trace_dir(), "wtour-%s-%d-%d.txt" % (key[:8], a, ci))
        with open(sfile, "w") as f:
            f.write("\n".join(lines) + "\n")
        trace = sfile + ".ndjson"
        rc, out, dt = sh([binp, "exec", "--in", sfile, "--out", trace], timeout=3000, check=False)
        if rc != 0:
            with open(trace, "a") as f:
                f.write(json.dumps({"op": "crash", "phase": "process", "during": "world tour", "signal": -rc if rc < 0 else rc}) + "\n")
        viol, tst = validate_trace(trace, timeout=6000)
        matched, drift, first = T.compare_world(trace, expect, a, events=events)
        n, ops = _count_ops(trace)
        res = {"a": a, "events": n, "ops": ops, "tlc": tst, "matched": matched, "drift": drift, "first_drift": first,
               "violations": _collect(trace, viol, {"engine": "world_tour" + ("-events" if events else ""), "archetype": a, "script": sfile}),
               "samples": [{"script_head": lines[:14]}] if (a == archs[0] and ci == 0) else []}
        if not viol:
            os.remove(trace)
            os.remove(sfile)
        return res
    with ThreadPoolExecutor(max_workers=4) as ex:
        parts = list(ex.map(one, [(a, ci) for a in archs for ci in range(nchunk)]))
    drift = sum(p["drift"] for p in parts)
    if drift:
        log("DRIFT (two-world model): %d steps differ (not a violation): %s" % (drift, json.dumps([p["first_drift"] for p in parts if p["first_drift"]][:1])[:700]))
    res = {"engine": "world_tour" + ("-events" if events else ""), "tier": tier, "model": consts, "model_states": st.get("distinct", 0),
           "edges_exported": len(edges_all), "edges_real": len(edges), "edges_covered": covered, "edges_unreachable": unreachable,
           "paths": len(paths), "archetypes": archs, "traces": len(paths) * len(archs), "events": sum(p["events"] for p in parts),
           "clone_steps": sum(p["ops"].get("clone", 0) for p in parts),
           "impl_states_matched": sum(p["matched"] for p in parts), "drift": drift,
           "tlc_states": st.get("distinct", 0) + sum(p["tlc"].get("distinct", 0) for p in parts),
           "tlc_transitions": st.get("generated", 0) + sum(p["tlc"].get("generated", 0) for p in parts),
           "violations": [v for p in parts for v in p["violations"]], "samples": [s for p in parts for s in p["samples"]],
           "exhaustive": drift == 0 and unreachable == 0, "wall_s": round(time.time() - t0, 1), "cached": False}
    cache_put("world_tour", key, res)
    return res
