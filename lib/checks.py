"""Per-property checks: which engines decide a property, evidence, exit codes."""
import json, os, sys, time, traceback
from vlib import build_harness
from vlib import *
import engines
import macroeng

PROPS = {}
def _load_props():
    with open(os.path.join(VERIF, "properties.jsonl")) as f:
        for line in f:
            p = json.loads(line)
            PROPS[p["id"]] = p

RUNTIME = ["C01", "C02", "C03", "C04", "C06", "C07", "C08", "C09", "C10", "C12", "C13"]

def plan(pid, tier, seed):
    """List of (name, thunk) engine runs deciding property `pid`."""
    runs = []
    if pid in RUNTIME:
        runs.append(("drive", lambda: engines.drive(tier, seed)))
        # the same histories in a release build (debug-only assertions off, overflow checks off)
        runs.append(("drive-release", lambda: engines.drive(tier, seed, release=True, small=True)))
        # the same driver on another declaration shape of the harness world (other declaration order,
        # ids, column orders -- the same component at different column positions -- and a 9-column Aw)
        runs.append(("drive-shapeb", lambda: engines.drive(tier, seed, small=True, shape="b", label="drive-shapeb")))
    if pid in ("C13", "C03"):
        runs.append(("world_tour", lambda: engines.world_tour(tier, seed)))
    if pid in ("C13", "C17"):
        # the two-world model with created / destroyed logs and clear_events, events build
        runs.append(("world_tour-events", lambda: engines.world_tour(tier, seed, features=("events",))))
    if pid in ("C06", "C07"):
        runs.append(("loops", lambda: engines.loops(tier, seed)))
    if pid in ("C13", "C07", "C01"):
        runs.append(("drive-events", lambda: engines.drive(tier, seed, features=("events",), small=True)))
    if pid in ("C01", "C02", "C03", "C08", "C09", "C12"):
        runs.append(("storage_mc", lambda: engines.storage_mc(tier, seed)))
    if pid in ("C01", "C08", "C09", "C12"):
        runs.append(("tour", lambda: engines.tour(tier, seed)))
    if pid in ("C01", "C08", "C12"):
        runs.append(("inductive", lambda: engines.inductive(tier, seed)))
    if pid in ("C12", "C10", "C09", "C01"):
        runs.append(("capacity", lambda: engines.capacity(tier, seed)))
    if pid in ("C03", "C04", "C10"):
        runs.append(("monitor", lambda: engines.monitor(tier, seed)))
    if pid in ("C03", "C04", "C10") and tier == "thorough":
        runs.append(("miri", lambda: engines.miri(tier, seed)))
    if pid in ("C01", "C08", "C09", "C10", "C07"):
        runs.append(("boundary", lambda: engines.boundary(tier, seed)))
    if pid in ("C08", "C10", "C09"):
        runs.append(("boundary-release", lambda: engines.boundary(tier, seed, release=True)))
    if pid in ("C10", "C17"):
        runs.append(("boundary-events", lambda: engines.boundary(tier, seed, features=("events",))))
    if pid in ("C08", "C10", "C01"):
        runs.append(("boundary-wrapping", lambda: engines.boundary(tier, seed, features=("wrapping_version",))))
    if pid in ("C05", "C06", "C07"):
        runs.append(("match", lambda: macroeng.match_enum(tier, seed)))
    if pid in ("C15", "C16", "C08"):
        runs.append(("ids", lambda: macroeng.ids_enum(tier, seed)))
    if pid in ("C15", "C14"):
        # the declaration-size boundary: a world with 256 archetypes (and 257 must be rejected)
        runs.append(("maxworld", lambda: macroeng.maxworld(tier, seed)))
    if pid in ("C19", "C02"):
        runs.append(("maxworld-32", lambda: macroeng.maxworld(tier, seed, features=("32_components",))))
    if pid in ("C02",):
        runs.append(("maxworld", lambda: macroeng.maxworld(tier, seed)))
    if pid in ("C17",):
        runs.append(("maxworld-events", lambda: macroeng.maxworld(tier, seed, features=("events",))))
    if pid in ("C15", "C16"):
        runs.append(("wdecl", lambda: macroeng.wdecl(tier, seed)))
    if pid in ("C16",):
        runs.append(("cfgq", lambda: macroeng.cfgq_enum(tier, seed)))
    if pid in ("C18",):
        runs.append(("match", lambda: macroeng.match_enum(tier, seed)))
        runs.append(("ids", lambda: macroeng.ids_enum(tier, seed)))
        runs.append(("client", lambda: macroeng.client_corpus(tier, seed)))
    if pid in ("C14",):
        runs.append(("handles", lambda: engines.handles(tier, seed)))
        runs.append(("drive", lambda: engines.drive(tier, seed)))
    if pid in ("C19",):
        allf = ("32_components", "events", "wrapping_version")
        if tier == "quick":
            # pairwise covering array over {32_components, events, wrapping_version, release}
            confs = [((), False), ((), True), (allf, False), (allf, True),
                     (("32_components",), True), (("events", "wrapping_version"), False), (("events",), True), (("32_components", "wrapping_version"), False)]
        else:
            import itertools
            confs = [(tuple(f for f, on in zip(allf, bits) if on), rel) for bits in itertools.product((False, True), repeat=3) for rel in (False, True)]
        for feats, rel in confs:
            runs.append(("drive-" + cfg_name(feats, rel), (lambda f=feats, r=rel: engines.drive(tier, seed, features=f, release=r, small=(f != () or r)))))
            runs.append(("boundary-" + cfg_name(feats, rel), (lambda f=feats, r=rel: engines.boundary(tier, seed, features=f, release=r))))
    if pid in ("C11", "C04", "C10"):
        runs.append(("borrow", lambda: engines.borrow(tier, seed)))
    if pid in ("C17",):
        runs.append(("drive-events", lambda: engines.drive(tier, seed, features=("events",))))
    return runs

def known_findings():
    out = []
    p = os.path.join(VERIF, "known_findings.txt")
    if os.path.exists(p):
        for line in open(p):
            line = line.strip()
            if line.startswith("known:"):
                d = dict(kv.split("=", 1) for kv in line.split()[1:3])
                d["text"] = line
                out.append(d)
    return out

def write_replay(pid, v):
    d = os.path.join(VERIF, "replays")
    os.makedirs(d, exist_ok=True)
    path = os.path.join(d, "%s-%d.json" % (pid, int(time.time() * 1000) % 10**10))
    with open(path, "w") as f:
        json.dump({"property": pid, "violation": v}, f, indent=1)
    return path

def run_check(pid, tier, seed):
    t0 = time.time()
    results, tool_errs = [], []
    for name, thunk in plan(pid, tier, seed):
        log("engine", name, "for", pid, "tier", tier)
        try:
            results.append(thunk())
        except ToolError as e:
            if pid == "C19" and "rustc of harness failed" in str(e) and name not in ("drive-dbg", "boundary-dbg"):
                # The harness is a client program that compiles against the default configuration
                # (checked right here). If the SAME source no longer compiles under a feature set or
                # profile, that configuration changed more than it documents.
                try:
                    build_harness((), False)
                    base_ok = True
                except ToolError:
                    base_ok = False
                if base_ok:
                    results.append({"engine": name, "cfg": name.split("-", 1)[-1], "tier": tier, "violations": [
                        {"tags": ["C19"], "what": "a client program (the conformance harness) that compiles in the default configuration does not compile in configuration %s: %s" % (name.split("-", 1)[-1], str(e)[-600:]),
                         "at": 0, "event": {"configuration": name}, "origin": {"engine": name}}], "samples": [], "wall_s": 0, "cached": False})
                    continue
            # one engine could not run (e.g. the harness no longer compiles against the tree under
            # test): the other engines still decide; without a violation from them the check
            # ends as a tool error (exit 2), never as OK
            tool_errs.append("%s: %s" % (name, e))
            log("engine", name, "could not run:", str(e)[:300])
    if not results and not tool_errs:
        raise ToolError("no engine registered for " + pid)
    mine, tool = [], []
    kf = known_findings()
    for r in results:
        for v in r.get("known", [])[:1]:
            match = [k for k in kf if k.get("property") == pid and k.get("id") == v.get("known")]
            if match:
                print("KNOWN-FINDING: property=%s %s (%d matching inputs in this run)" % (pid, match[0]["text"].split(" ", 3)[3], r.get("n_known", 1)))
            else:
                mine.append(v)
    for r in results:
        for v in r["violations"]:
            if "TOOL" in v["tags"]:
                tool.append(v)
            elif pid in v["tags"]:
                mine.append(v)
            elif pid == "C19" and r.get("cfg", "dbg") != "dbg":
                # "all other properties hold unchanged in every feature combination and profile"
                mine.append(v)
    if tool:
        tool_errs.append("harness/trace inconsistency: %s" % json.dumps(tool[:3])[:1500])
    if tool_errs and not mine:
        raise ToolError(" || ".join(tool_errs)[:4000])
    evidence = make_evidence(pid, tier, seed, results, mine, time.time() - t0)
    os.makedirs(os.path.join(VERIF, "evidence"), exist_ok=True)
    with open(os.path.join(VERIF, "evidence", pid + ".json"), "w") as f:
        json.dump(evidence, f, indent=1)
    if mine:
        first = mine[0]
        path = write_replay(pid, first)
        print("VIOLATION property=%s replay=%s" % (pid, path))
        print("  first: %s (engine %s, event %s)" % (first["what"], first["origin"].get("engine"), first.get("at")))
        print("  %d violating observation(s) in total" % len(mine))
        return 1
    print("OK property=%s tier=%s engines=%s wall=%.1fs" % (pid, tier, ",".join(r["engine"] for r in results), time.time() - t0))
    return 0

LEVELS = {"C05": "translation_validation", "C15": "translation_validation", "C16": "translation_validation",
          "C14": "exploration", "C18": "exploration"}

def make_evidence(pid, tier, seed, results, mine, wall):
    level = LEVELS.get(pid, "model_checking")
    states = sum(r.get("tlc_states", 0) for r in results)
    trans = sum(r.get("tlc_transitions", 0) for r in results)
    traces = sum(r.get("traces", 0) for r in results)
    samples = []
    for r in results:
        samples += r.get("samples", [])[:2]
    engines_brief = [{k: v for k, v in r.items() if k not in ("violations", "samples", "known")} for r in results]
    cov = {"samples": samples[:6] or [{"note": "no sample"}], "engines": engines_brief}
    assumptions = ["TLC, rustc/cargo and the harness recorder are trusted",
                   "the verdict covers the recorded executions and the bounded models, not all executions"]
    if level == "model_checking":
        cov.update({"states": max(states, 1), "transitions": max(trans, 1), "traces_validated_against_impl": traces,
                    "exhaustive": False,
                    "events_validated": sum(r.get("events", 0) for r in results),
                    "probes_validated": sum(r.get("probes", 0) for r in results)})
    elif level == "translation_validation":
        programs = sum(r.get("programs", 0) for r in results)
        cov.update({"programs": max(programs, 1),
                    "disagreements_checked": sum(r.get("generator_runs", 0) + r.get("e2e_programs", r.get("e2e_crates", 0)) for r in results),
                    "states": max(states, 1), "transitions": max(trans, 1),
                    "explanation": "every TLC-enumerated program is run through the real generators (as a library) and compared with the outcome the TLA+ definition assigns; a stratified sample is compiled with rustc under forbid(unsafe_code) and executed",
                    "exhaustive": True})
        assumptions.append("exhaustive over the enumerated bounds only (see engines[].programs)")
    else:
        evals = sum(r.get("values", 0) + r.get("programs", 0) + r.get("generator_runs", 0) for r in results)
        distinct = sum(r.get("classes", 0) + r.get("pairs_from_model", 0) + r.get("special_pairs", 0) for r in results)
        cov.update({"evaluations": max(evals, 1), "distinct_nontrivial": max(distinct, 2),
                    "rule": ("C14: TLC enumerates boundary classes (position x archetype id x generation); distinct = classes, evaluations = class representatives plus seeded random members, each through ~30 conversions. "
                             "C18: distinct = (holder, intruder, order) programs from ClientMC plus hand-written forbidden/twin pairs; evaluations additionally count every generated expansion scanned for `unsafe`."),
                    "states": max(states, 1), "transitions": max(trans, 1)})
    return {"property_id": pid, "tier": tier, "seed": seed, "level": level, "coverage": cov,
            "assumptions": assumptions, "wall_s": round(wall, 2), "violations": len(mine)}

def main(argv):
    _load_props()
    if not argv:
        print("usage: check <ID> [--tier quick|thorough] [--replay PATH]")
        return 2
    pid = argv[0]
    tier = os.environ.get("VERIF_TIER", "quick")
    if "--tier" in argv:
        tier = argv[argv.index("--tier") + 1]
    seed = int(os.environ.get("VERIF_SEED", "1"))
    if "--replay" in argv:
        # re-execute, without the cache and on the current tree, the exploration that produced the
        # violation recorded in the replay file (same engine seed / configuration), then judge again
        path = argv[argv.index("--replay") + 1]
        try:
            rec = json.load(open(path))
            org = rec.get("violation", {}).get("origin", {})
            if "seed" in org:
                seed = org["seed"] // 1000 if org.get("engine", "").startswith("drive") else org["seed"]
            print("replaying %s: %s" % (path, json.dumps({k: org.get(k) for k in ("engine", "seed", "features", "release", "cfg", "archetype")})))
            print("recorded: %s" % rec.get("violation", {}).get("what"))
        except Exception as e:
            print("TOOL-ERROR cannot read replay file: %s" % e, file=sys.stderr)
            return 2
        os.environ["VERIF_NO_CACHE"] = "1"
    try:
        if pid not in PROPS:
            raise ToolError("unknown property " + pid)
        return run_check(pid, tier, seed)
    except ToolError as e:
        print("TOOL-ERROR property=%s: %s" % (pid, e), file=sys.stderr)
        return 2
    except Exception:
        traceback.print_exc()
        return 2
