#!/usr/bin/env python3
"""Regenerates /verif/MANIFEST.json from the table below (python3 lib/manifest.py)."""
import json, os
VERIF = os.path.dirname(os.path.dirname(os.path.abspath(__file__)))

TB = ("TLC 1.8 and its Json/IOUtils modules; rustc/cargo; the harness recorder (harness/src) and its instrumented "
      "component types; the verdict covers the executions recorded and the bounded models explored, not all executions")

CHECKS = {
 "C01": ("model_checking", "trace validation against TLA+ contract + TLC model checking of the slot-map model",
         "Every handle ever issued (live and stale) and forged values are probed through 26+15 lookup paths after every step of seeded random histories and overflow-boundary histories on the real crate; TLC validates each recorded execution against Contract.tla (accepted iff alive, designates the same entity, stale rejected forever) and checks the glue/representation invariant on the structural dump after every step; StorageMC explores every bounded history of the slot-map model with the handle universe quantified in every state. Also: the transition tour replays every state-changing transition of StorageMC on the real crate and compares the dump after each step with the model (drift 0), Apalache shows the storage invariant inductive for unbounded generations, and the same histories run in release and events builds and across the generation boundaries (2^16, 2^24, 2^31, 2^32-1) via the preset hook.", "6 C01"),
 "C02": ("model_checking", "trace validation against TLA+ contract (values through every access path)",
         "After every step a full snapshot through a rotating read path (9 paths), all value-returning probes, closure arguments of all five query macros and destroy's return values are compared by TLC with the contract's own latest values; writes go through 8 mutable paths; archetype shapes 1/3/4/16 columns incl. zero-sized, align(64), heap-owning. Also in a release build; component shapes include a 0.8 KB component (block-wise copies), an align(64) one, a heap-owning one, a zero-sized one and 16/32 columns; Components::get/get_mut and View/Borrow::index are cross-checked.", "6 C02"),
 "C03": ("model_checking", "trace validation (forged/foreign handle classes) in debug and release builds",
         "Forged handles (from_raw by class relative to the real dump: free slot with matching generation, position = capacity, beyond, 2^24-1, generation max, other archetype ids, undeclared ids) and handles of other worlds are probed through every lookup path and used for destroy/write/find after every step, in debug and release builds; the contract accepts only None or a clean panic unless the value is bit-identical to a live handle; process signals and escaped panics are violations. Also: unchecked typed conversions between archetypes (release), a two-world model tour with each other's handles, and valgrind memcheck on debug and release builds of the random histories.", "6 C03"),
 "C04": ("model_checking", "trace validation of a Drop/Clone ledger against the TLA+ contract",
         "Every component instance carries an id; Drop/Clone are instrumented; TLC checks for every operation that exactly the values it releases are dropped, none twice, none while its entity lives, clone clones each live cell once into fresh values, and that nothing is alive after the worlds are dropped (incl. zero-sized values by count). Also: valgrind leak check, and the borrow engine requires that nothing is alive after each nested-access script (a refused clone must not leave clones behind).", "6 C04"),
 "C06": ("model_checking", "trace validation of closure invocations and iterator snapshots",
         "Every closure invocation of ecs_iter!/ecs_iter_borrow! (7 parameter menus over 4 archetypes) is recorded; TLC checks each visit is a live matching entity, visited once, with its own values, that a loop without Break visits exactly the matching entities, and that nothing runs after Break; Archetype::iter/iter_mut/entities()/slices are snapshot paths whose length must equal len(). Also: LoopsMC enumerates every population x Break position and the behaviours are replayed (visit order equal to the model's index loops).", "6 C06"),
 "C07": ("model_checking", "trace validation of ecs_iter_destroy! with random decision functions",
         "ecs_iter_destroy! runs with random decision functions into the four EcsStepDestroy values; TLC folds the recorded visits over the contract (exactly-once, flagged ones destroyed, survivors intact, stop at Break, direct handles designate the visited entity) and re-checks the whole world afterwards. Also: LoopsMC enumerates every population of up to 2 (thorough 3) entities in two archetypes x every decision function into the four EcsStepDestroy values; each is replayed on the real crate and validated.", "6 C07"),
 "C08": ("model_checking", "trace validation + glue invariant on dumps + preset overflow histories",
         "TLC checks every created handle against all handles issued before in that world and, on every dump, that each free position carries a generation newer than everything issued there (latent reuse); overflow histories via the preset hook check panic-instead-of-reuse in the default build and the documented wrap in the wrapping_version build; StorageMC checks freshness over all bounded histories.", "6 C08"),
 "C09": ("model_checking", "trace validation of direct-handle records (mint point x use point)",
         "Direct handles are minted by to_direct (4 key kinds, 2 levels), by a mint-all after every step and by closure parameters of all five macros; TLC keeps a record (token, entity, removals at minting) per handle and demands: accepted while no removal happened since, designates its own entity, rejected after any removal; probed through 26+15 paths and used for destroy/write/find. Also: direct-handle tokens that have died must never be current again (catches a missing version bump even when the same bits are re-minted), and Archetype::version() is compared with the dump.", "6 C09"),
 "C10": ("model_checking", "fault injection (closure/Clone/Drop panics, version overflow) validated against the contract",
         "Closure panics at the k-th invocation, Clone panics during clone, Drop panics during world drop / destroy / ecs_iter_destroy!, generation and archetype-version overflow (preset hook) are injected under catch_unwind; after each the full observation (dump, snapshot, probes) is validated by TLC and the history continues with further operations and the final drop. Also: every violation observed right after a panicking operation is attributed to C10; overflow histories run in default, release, events and wrapping builds; the real 2^24 capacity panic; valgrind.", "6 C10"),
 "C11": ("model_checking", "TLC enumeration of access nestings (BorrowMC) replayed on the real crate",
         "BorrowMC.tla models one RefCell per column as a stack machine; TLC enumerates every nested and sequential combination of find_borrow / iter_borrow / Borrow::component(_mut) / borrow_slice(_mut) / clone x shared/mut x column x archetype x entity (incl. an empty archetype) up to the depth bound, checks no-aliasing and free-at-rest, and each behaviour is executed on the real crate; granted/refused, values seen and cells free afterwards must agree.", "6 C11"),
 "C12": ("model_checking", "trace validation of len/capacity rules + representation invariant on dumps",
         "After every step len/is_empty/capacity of every archetype are compared with the contract (len = live entities, capacity monotone, unchanged when there is room, create_within ok iff len < capacity and hands its argument back); the free-list clause of the representation invariant is checked on every dump (refill to capacity); StorageMC explores growth from every initial capacity. Also: a release run at the REAL limit (with_capacity(2^24+1), fill 2^24-2, grow to exactly 2^24, panic at the limit, refill freed positions, growth from 2^23) validated against Capacity.tla, the tour, and the Apalache corollary that the free chain has exactly capacity - len members.", "6 C12"),
 "C13": ("model_checking", "trace validation with cloned worlds observed side by side",
         "clone is an operation of the random histories (also with injected Clone panics); afterwards every existing world is fully observed after every step (dump, snapshot, probes incl. each other's handles and direct handles), so any leak of an operation into the other world is a contract violation; the clone must have the source's len, capacity, handles, values and pending events. Also: clone_from into an existing (larger or smaller) world, and WorldMC.tla: every transition of a two-world model (clone, clone_from, drop, diverging creates/destroys, quick 1 514 transitions) replayed with both worlds compared with the model after every step.", "6 C13"),
 "C17": ("model_checking", "trace validation of event logs in an `events` build",
         "With feature events the per-archetype created/destroyed lists and the world-level iterators (with size_hint after every next()) are recorded after every step and compared by TLC with the contract's pending-event sets (both creation paths, 4 destroy key kinds, ecs_iter_destroy!, per-archetype and world clears). Also: a 1300-cycle history with long logs and clears, and the overflow-boundary histories in an events build (no phantom events after a panicking destroy).", "6 C17"),
 "C05": ("translation_validation", "TLC enumeration of (declaration, query) programs vs. the real generators (library-driven + compiled sample)",
         "Match.tla transcribes archetype selection and OneOf binding; TLC enumerates every declaration of 1..2 (thorough 3) archetypes over a component pool x every parameter list up to length 2 over components/OneOf/typed, wildcard and dynamic entity and direct parameters, checks soundness and completeness of the matched set on the model, and every program is run through the real parser and all five real query generators (matched archetypes, per-parameter binding, error class incl. precedence); a stratified sample is compiled under forbid(unsafe_code) and executed (which entities the closure ran for, what each parameter was bound to, find on unmatched archetypes returns None without running the closure, negative programs fail to compile).", "6 C05"),
 "C14": ("exploration", "TLC-checked conversion laws + TLC-enumerated boundary classes replayed on the real conversions",
         "HandleMC.tla checks pack/unpack, raw round trip, TryFrom faithfulness, Select tables and Eq/Hash laws exhaustively at reduced widths and enumerates boundary classes at the real widths (positions 0,1,2,2^24-2,2^24-1 x ids 0..5,254,255 x generations 0,1,2,2^16,2^31,2^32-2,2^32-1) with expected outcomes; the harness runs every representative and seeded random class members through from_raw/raw/archetype_id/TryFrom/from_any/into_any/reference conversions/SelectArchetype/SelectEntity/SelectEntityDirect/HashSet/HashMap; per class, not per value (encode/decode over 2^64 values is outside what a model enumerates).", "6 C14"),
 "C15": ("translation_validation", "TLC enumeration of id declarations vs. the real DataWorld::new and compiled constants",
         "Ids.tla transcribes the discriminant rule with collision and 255-overflow errors; TLC enumerates every declaration of up to 3 items with explicit ids in any order and cfg-disabled items under every assignment, checks distinctness and the rule on the model, and every declaration is pushed through the real DataWorld::new at archetype and component level; a sample is compiled: ARCHETYPE_ID, COMPONENT_ID, ecs_component_id!, archetype_id() of created handles, Select* conversions, and the two compile errors. Also: WorldDeclMC.tla enumerates two-level declarations (archetype and component ids with cfg decorations, 40 128 in the quick tier) through the real DataWorld::new.", "6 C15"),
 "C16": ("translation_validation", "TLC enumeration of cfg-decorated programs x assignments vs. their reduced twins through the real macros",
         "Reduce (Ids.tla, MatchCfgMC.tla) deletes disabled items and strips enabled attributes; TLC enumerates decorated declarations and decorated query parameter lists with every truth assignment and the outcome of the reduced twin; decorated program and twin both go through the real generators, and a sample is compiled and executed with the assignment realised by cfg(all())/cfg(any()) and by --cfg flags. Known finding: any cfg on a OneOf parameter is a compile error. Also: two-level decorated declarations (WorldDeclMC) with the predicate order TLA+ prescribes, and the cfg-probing macro chains of ecs_world! and of all five query macros are read back from the generated tokens (order of predicates, true/false literals, hand-over, entry point).", "6 C16"),
 "C18": ("exploration", "token scan of every enumerated expansion + TLC-enumerated holder/intruder client programs compiled by rustc",
         "PARTIAL. (a) every token stream the real world/query generators produce for the C05/C15/C16 enumerations is scanned for the `unsafe` keyword and every end-to-end crate is compiled under #![forbid(unsafe_code)]. (b) ClientMC.tla enumerates (holder, intruder, order) client programs with the aliasing rule as verdict; each is compiled: the unsound ones must be rejected with the expected error class, their sound twins must compile; plus a hand-written corpus of unsound/sound pairs (structural change inside a closure, two mutable accesses to one column, &mut entity parameters, smuggled references, worlds across threads, auto-trait facts). Whether rustc rejects a program is decided by rustc; TLA+ contributes the enumeration and pairing only.", "7"),
 "C19": ("model_checking", "the runtime trace validation repeated per feature set x profile with the contract constants set per build",
         "The harness is rebuilt under feature sets x {debug, release} (quick: none/all x debug/release; thorough: all 16); each build records random histories and overflow-boundary histories (preset hook) that TLC validates against the same contract with events / wrapping / debug flags read from the trace header, i.e. events only adds event observations, wrapping_version only replaces the overflow panic by the documented wrap, 32_components only adds columns, release only turns debug-only panics into None.", "6 C19"),
}

def main():
    props = [json.loads(l) for l in open(os.path.join(VERIF, "properties.jsonl"))]
    checks, na = [], []
    for p in props:
        pid = p["id"]
        if pid in CHECKS:
            cat, tech, text, ref = CHECKS[pid]
            if pid in ("C01", "C02", "C03", "C04", "C06", "C07", "C08", "C09", "C10", "C12", "C13"):
                text += (" Also: the same driver on a second declaration shape of the harness world (other declaration order, ids 0/7/8/9, "
                         "reversed column lists so that shared components sit at different column positions, a 9-column archetype), with "
                         "packed 17/19-byte and 4 KiB components and one without drop glue (Clone calls counted), quiet bursts without "
                         "intermediate observation, partially consumed iterators and positional adaptors, closures of several body shapes "
                         "(block, bare method call, bare function call, match, early return) with captured variables named like the macros' "
                         "locals, creation through a user conversion with injected conversion panics, archetype-level clone_from with faults, "
                         "a refill of every archetype to exactly its capacity and a leaked runtime-borrow guard at the end of every history.")
            if pid in ("C06", "C07"):
                text += " Also: every MatchMC program through the real generators (a wrong matched set of a loop macro counts against this property)."
            if pid in ("C03", "C04", "C10"):
                text += " Thorough tier: short histories of the driver under the Miri interpreter."
            if pid in ("C09", "C01"):
                text += " Also: direct and entity handles probed after 1 .. 2^24+256 really performed removals / recyclings (capacity engine)."
            if pid in ("C01", "C08", "C09", "C12"):
                text += (" Also: TLC checks that the slot-map model IMPLEMENTS the representation-free entity map AbsMap.tla (refinement PROPERTY, live set "
                         "read out of the dense handle column): every free-list pop, growth, swap-remove and generation bump is one abstract create / destroy / mint or a stutter.")
            if pid in ("C13", "C17"):
                text += (" Also: WorldMC with Events = TRUE carries each world's created / destroyed logs (create, destroy, clone, clone_from, clear_events at both levels, drop; "
                         "invariant EventsOk) and ecs_iter_destroy! with every set of two or more flagged entities as an action; TLC checks that this model implements the abstract worlds of AbsWorld.tla "
                         "(refinement PROPERTY: operations are local to one world, clone copies live set and logs); every transition of the model is replayed in the events build, the real logs are compared "
                         "with the model's after every step and every step is judged by the contract.")
            if pid == "C11":
                text += " Clone is enumerated as inner leaf and as OUTER access (the body runs from inside a component's Clone::clone while clone holds the archetype's columns)."
            if pid == "C14":
                text += " Also: the documented EcsError variant of every failing conversion (undeclared direct ids through a second world type), and a 256-archetype world (dispatch and Select* for every id)."
            if pid == "C15":
                text += " Also: the declaration-size boundary (256 archetypes compiled and exercised, 257 rejected; 16-component archetype exercised column by column, 17 rejected)."
            if pid == "C17":
                text += " Also: the world-level event iterators of a 256-archetype world with size_hint at every position."
            if pid == "C19":
                text += " Also: the maximum arity under 32_components (32 components exercised column by column, 33 rejected), and the rule that the harness, which compiles in the default configuration, must compile in every other one."
            if pid == "C16":
                text += " Also: same-name alternatives (two archetypes, or two components of one archetype, carrying the same name under exclusive predicates)."
            checks.append({
                "property_id": pid,
                "quick_cmd": "bin/check %s --tier quick" % pid,
                "thorough_cmd": "bin/check %s --tier thorough" % pid,
                "evidence_file": "evidence/%s.json" % pid,
                "replay_cmd_template": "bin/check %s --replay {path}" % pid,
                "engine": "bin/check",
                "level_claimed": {"category": cat, "text": text, "design_ref": "DESIGN.md section " + ref},
                "level_note": TB,
                "technique": tech,
            })
        else:
            na.append({"property_id": pid, "reason": "check under construction (framework build in progress)"})
    m = {"version": 1,
         "setup_cmd": "bin/setup",
         "hooks": {"guard": "gecs_verif",
                   "enable": "RUSTFLAGS='--cfg gecs_verif' (a cfg flag, not a cargo feature); the checks pass it themselves",
                   "baseline_off_cmd": "cd /repo && cargo test --workspace --no-fail-fast --offline",
                   "source_commits": ["1520591", "3fad01d"], "add_only": True},
         "engines": [
             {"name": "bin/check", "path": "bin/check", "serves_properties": sorted(CHECKS),
              "kind_free_text": "python driver: builds gecs from /repo's working tree with --cfg gecs_verif, builds the Rust harness with rustc, runs TLC (model checking, trace validation, behaviour export) and writes evidence"}],
         "checks": checks,
         "notes": "Exit codes: 0 held, 1 VIOLATION line + replay file, 2 tool error/timeout (never a VIOLATION). Engine runs are memoised under build/cache keyed by the content hash of the repository working tree, of /verif, tier and seed.",
         "not_applicable": na}
    with open(os.path.join(VERIF, "MANIFEST.json"), "w") as f:
        json.dump(m, f, indent=1)
    print("checks:", len(checks), "not_applicable:", len(na))

main()
