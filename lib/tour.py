"""Transition tour: every state-changing transition of the StorageMC model (exported by TLC) is
covered by at least one path from an initial state; the paths become operation scripts with
symbolic handles, are executed on the real crate, validated against the contract by TLC, and the
structural dump after every step is compared with the model's successor state (DRIFT if not equal)."""
import json, os, re, time
from collections import deque
from concurrent.futures import ThreadPoolExecutor
from vlib import *

ARCH_IDS = [3, 4, 255, 0]

def export_edges(consts):
    cfg = os.path.join(BUILD, "tlc", "tour-%s.cfg" % key_of(consts)[:8])
    os.makedirs(os.path.dirname(cfg), exist_ok=True)
    with open(cfg, "w") as f:
        f.write("SPECIFICATION Spec\nCONSTANTS\n" + "".join("  %s = %s\n" % kv for kv in consts.items()) +
                "  Wrapping = FALSE\n  DebugAsserts = TRUE\n  Pinned = FALSE\n  Edges = TRUE\n  TrackDirect = FALSE\n"
                "INVARIANTS RepInv GhostOk C01_ResolveIffLive C02_OwnValue C12_Len NoBad\nCHECK_DEADLOCK FALSE\n")
    rc, out, dt = run_tlc("StorageMC", cfg=cfg, workers=8, timeout=3000)
    if "No error has been found" not in out:
        raise ToolError("StorageMC (edge export) failed:\n" + out[-3000:])
    edges = set()
    for m in re.finditer(r'<<"EDGE", "(.*)">>', out):
        e = json.loads(m.group(1).encode().decode("unicode_escape"))
        edges.add(json.dumps(e, sort_keys=True))
    return [json.loads(e) for e in sorted(edges)], tlc_stats(out)

def skey(s):
    return json.dumps(s, sort_keys=True)

def new_state(c):
    return {"cap": c, "len": 0, "aver": 1, "head": -1 if c == 0 else 0,
            "slots": [[1, (i + 1) if i < c - 1 else -1, 1] for i in range(c)], "dense": []}

def real_edge(e):
    """Drop transitions that exist only because of the model's small limits."""
    if e["out"][0] not in ("ok", "err", "some"):
        return False
    f, t = e["from"], e["to"]
    if e["op"] == "create" and f["len"] >= f["cap"] and t["cap"] != 2 * (f["cap"] + 1):
        return False    # growth capped by the model's MaxCap
    return True

def plan_paths(edges, init_caps, max_len=40):
    adj = {}
    for i, e in enumerate(edges):
        adj.setdefault(skey(e["from"]), []).append(i)
    uncovered = set(range(len(edges)))
    inits = [skey(new_state(c)) for c in init_caps]
    paths = []
    def bfs(start):
        """shortest edge sequence from start to a node with an uncovered out-edge"""
        seen = {start: None}
        dq = deque([start])
        while dq:
            n = dq.popleft()
            if any(i in uncovered for i in adj.get(n, [])):
                seq = []
                while seen[n] is not None:
                    p, ei = seen[n]
                    seq.append(ei)
                    n = p
                return list(reversed(seq))
            for ei in adj.get(n, []):
                t = skey(edges[ei]["to"])
                if t not in seen:
                    seen[t] = (n, ei)
                    dq.append(t)
        return None
    guard = 0
    while uncovered and guard < 100000:
        guard += 1
        best = None
        for s in inits:
            seq = bfs(s)
            if seq is not None and (best is None or len(seq) < len(best[1])):
                best = (s, seq)
        if best is None:
            break   # the rest is unreachable through real edges
        node, path = best[0], list(best[1])
        for ei in path:
            node = skey(edges[ei]["to"])
        while len(path) < max_len:
            nxt = [i for i in adj.get(node, []) if i in uncovered]
            if nxt:
                ei = nxt[0]
            else:
                seq = bfs(node)
                if not seq or len(path) + len(seq) > max_len:
                    break
                for x in seq[:-1]:
                    path.append(x)
                ei = seq[-1]
                node = skey(edges[ei]["from"])
            path.append(ei)
            uncovered.discard(ei)
            node = skey(edges[ei]["to"])
        for ei in path:
            uncovered.discard(ei)
        paths.append(path)
    return paths, len(uncovered)

KINDS = [("e", "w"), ("a", "w"), ("e", "a"), ("a", "a")]
DKINDS = [("d", "w"), ("da", "w"), ("d", "a"), ("da", "a")]

def render(edges, paths, a, init_cap_of):
    """Script lines plus, per line number, the expected model state of archetype a."""
    lines, expect = [], {}
    counter = 0
    aid = ARCH_IDS[a]
    for path in paths:
        lines.append("reset")
        first = edges[path[0]]["from"]
        caps = [0, 0, 0, 0]
        caps[a] = first["cap"]
        lines.append("init 0 %d %d %d %d" % tuple(caps))
        expect[len(lines)] = first
        issued = {}
        nh = nd = 0
        for ei in path:
            e = edges[ei]
            counter += 1
            if e["op"] in ("create", "create_within"):
                lines.append("create 0 %d %d %d" % (a, counter % 4, 1 if e["op"] == "create_within" else 0))
                if e["out"][0] == "ok":
                    issued[(e["out"][1], e["out"][2])] = nh
                nh += 1   # the harness binds a (possibly empty) handle slot for every create line
            elif e["op"] == "destroy":
                pos, gen = e["arg"]
                kd, lv = KINDS[counter % 4]
                key = "H%d" % issued[(pos, gen)] if (pos, gen) in issued else "R:%d:%d:%d" % (aid, pos, gen)
                lines.append("destroy 0 %s %s %s" % (key, kd, lv))
            elif e["op"] == "destroy_direct":
                idx, ver = e["arg"]
                kd, lv = DKINDS[counter % 4]
                if counter % 2 == 0 and tuple(e["from"]["dense"][idx]) in issued:
                    lines.append("to_direct 0 H%d %s %s" % (issued[tuple(e["from"]["dense"][idx])], "e" if counter % 4 < 2 else "a", "w" if counter % 3 else "a"))
                    expect[len(lines)] = e["from"]
                    lines.append("destroy 0 D%d %s %s" % (nd, kd, lv))
                    nd += 1
                else:
                    lines.append("destroy 0 F:%d:%d:%d %s %s" % (a, idx, ver, kd, lv))
            expect[len(lines)] = e["to"]
            # sprinkle misses that must leave the state alone: a stale handle and a forged one
            t = e["to"]
            if counter % 3 == 0:
                live = {tuple(x) for x in t["dense"]}
                stale = [k for k in issued if k not in live]
                if stale:
                    kd, lv = KINDS[(counter // 3) % 4]
                    lines.append("destroy 0 H%d %s %s" % (issued[stale[counter % len(stale)]], kd, lv))
                    expect[len(lines)] = t
                free = [(p, s[2]) for p, s in enumerate(t["slots"]) if s[0] == 1]
                if free:
                    p, v = free[counter % len(free)]
                    lines.append("destroy 0 R:%d:%d:%d a %s" % (aid, p, v, "w" if counter % 2 else "a"))
                    expect[len(lines)] = t
    return lines, expect

def dump_to_model(d, cap, ln):
    return {"cap": cap, "len": ln, "aver": d["ver"][0] * 65536 + d["ver"][1], "head": d["head"],
            "slots": [[s[0], s[1], s[2] * 65536 + s[3]] for s in d["slots"]],
            "dense": [[t[1], t[2] * 65536 + t[3]] for t in d["dense"]]}

def compare(trace, expect, a):
    matched = drift = 0
    first = None
    with open(trace) as f:
        for line in f:
            if '"sl":' not in line:
                continue
            ev = json.loads(line)
            sl = ev.get("sl", -1)
            if sl in expect and ev.get("obs"):
                x = ev["obs"][0]["ar"][a]
                got = dump_to_model(x["dump"], x["cap"], x["len"])
                if got == expect[sl]:
                    matched += 1
                else:
                    drift += 1
                    if first is None:
                        first = {"script_line": sl, "op": ev["op"], "model": expect[sl], "real": got}
    return matched, drift, first


# ----------------------------------------------------------------------------- two-world tour (WorldMC)

def export_world_edges(consts):
    cfg = os.path.join(BUILD, "tlc", "wtour-%s.cfg" % key_of(consts)[:8])
    os.makedirs(os.path.dirname(cfg), exist_ok=True)
    with open(cfg, "w") as f:
        if "Events" not in consts:
            consts = dict(consts, Events="FALSE")
        if "Loops" not in consts:
            consts = dict(consts, Loops="TRUE")
        f.write("SPECIFICATION Spec\nCONSTANTS\n" + "".join("  %s = %s\n" % kv for kv in consts.items()) +
                "  Edges = TRUE\nINVARIANTS RepInv CrossWorldSafe EventsOk\nPROPERTY RefinesW\nCHECK_DEADLOCK FALSE\n")
    rc, out, dt = run_tlc("WorldMC", cfg=cfg, workers=8, timeout=3000)
    if "No error has been found" not in out:
        raise ToolError("WorldMC failed:\n" + out[-3000:])
    edges = set()
    for m in re.finditer(r'<<"WEDGE", "(.*)">>', out):
        edges.add(json.dumps(json.loads(m.group(1).encode().decode("unicode_escape")), sort_keys=True))
    return [json.loads(e) for e in sorted(edges)], tlc_stats(out)

def world_real_edge(e):
    if e["op"] != "create":
        return True
    w = e["arg"][0] - 1
    f, t = e["from"][w][1], e["to"][w][1]
    return not (f["len"] >= f["cap"] and t["cap"] != 2 * (f["cap"] + 1))

def plan_world_paths(edges, init_caps, max_len=30, events=False):
    inits = []
    for c in init_caps:
        inits.append([["world", new_state(c)] + ([[], []] if events else []), ["none"]])
    # reuse plan_paths with explicit initial nodes
    adj = {}
    for i, e in enumerate(edges):
        adj.setdefault(skey(e["from"]), []).append(i)
    init_keys = [skey(s) for s in inits]
    return _plan(edges, adj, init_keys, max_len)

def _plan(edges, adj, inits, max_len):
    uncovered = set(range(len(edges)))
    paths = []
    def bfs(start):
        seen = {start: None}
        dq = deque([start])
        while dq:
            n = dq.popleft()
            if any(i in uncovered for i in adj.get(n, [])):
                seq = []
                while seen[n] is not None:
                    p, ei = seen[n]
                    seq.append(ei)
                    n = p
                return list(reversed(seq))
            for ei in adj.get(n, []):
                t = skey(edges[ei]["to"])
                if t not in seen:
                    seen[t] = (n, ei)
                    dq.append(t)
        return None
    guard = 0
    while uncovered and guard < 100000:
        guard += 1
        best = None
        for s in inits:
            seq = bfs(s)
            if seq is not None and (best is None or len(seq) < len(best[1])):
                best = (s, seq)
        if best is None:
            break
        node, path = best[0], list(best[1])
        for ei in path:
            node = skey(edges[ei]["to"])
        while len(path) < max_len:
            nxt = [i for i in adj.get(node, []) if i in uncovered]
            if nxt:
                ei = nxt[0]
            else:
                seq = bfs(node)
                if not seq or len(path) + len(seq) > max_len:
                    break
                for x in seq[:-1]:
                    path.append(x)
                ei = seq[-1]
            path.append(ei)
            uncovered.discard(ei)
            node = skey(edges[ei]["to"])
        for ei in path:
            uncovered.discard(ei)
        paths.append(path)
    return paths, len(uncovered)

def render_world(edges, paths, a):
    lines, expect = [], {}
    aid = ARCH_IDS[a]
    counter = 0
    for path in paths:
        lines.append("reset")
        first = edges[path[0]]["from"]
        caps = [0, 0, 0, 0]
        caps[a] = first[0][1]["cap"]
        lines.append("init 0 %d %d %d %d" % tuple(caps))
        expect[len(lines)] = first
        issued = {}
        nh = 0
        for ei in path:
            e = edges[ei]
            counter += 1
            if e["op"] == "create":
                w, room = e["arg"]
                t = e["to"][w - 1][1]
                lines.append("create %d %d %d %d" % (w - 1, a, counter % 4, 1 if (room and counter % 2) else 0))
                new = tuple(t["dense"][-1])
                issued[new] = nh
                nh += 1
            elif e["op"] == "destroy":
                w, pos, gen = e["arg"]
                kd, lv = KINDS[counter % 4]
                key = "H%d" % issued[(pos, gen)] if (pos, gen) in issued else "R:%d:%d:%d" % (aid, pos, gen)
                lines.append("destroy %d %s %s %s" % (w - 1, key, kd, lv))
            elif e["op"] in ("clone", "clone_from"):
                lines.append("%s %d %d" % (e["op"], e["arg"][0] - 1, e["arg"][1] - 1))
            elif e["op"] == "drop":
                lines.append("drop %d" % (e["arg"][0] - 1))
            elif e["op"] == "loop_destroy":
                # ecs_iter_destroy! with menu 5 (EntityAny, EntityDirectAny, &mut OneOf: matches every archetype, the others are empty;
                # menus 0 and 3 rotate closure shapes, one of which cannot destroy), ContinueDestroy for the flagged handles
                w, flagged = e["arg"]
                lines.append("loop %d 5 iter_destroy c %s" % (w - 1, " ".join("H%d=cd" % issued[tuple(h)] for h in flagged)))
            elif e["op"] == "clear_events":
                # world-level and archetype-level clear alternate
                lines.append("clear_events %d" % (e["arg"][0] - 1) + ((" %d" % a) if counter % 2 else ""))
            expect[len(lines)] = e["to"]
    return lines, expect

def compare_world(trace, expect, a, events=False):
    def evl(l):
        return [[t[1], (t[2] << 16) | t[3]] for t in l]
    matched = drift = 0
    first = None
    with open(trace) as f:
        for line in f:
            if '"sl":' not in line:
                continue
            ev = json.loads(line)
            sl = ev.get("sl", -1)
            if sl not in expect:
                continue
            want = expect[sl]
            got = [["none"], ["none"]]
            for o in ev.get("obs", []):
                x = o["ar"][a]
                if o["w"] < 2:
                    got[o["w"]] = ["world", dump_to_model(x["dump"], x["cap"], x["len"])] + ([evl(x.get("evc", [])), evl(x.get("evd", []))] if events else [])
            if got == want:
                matched += 1
            else:
                drift += 1
                if first is None:
                    first = {"script_line": sl, "op": ev["op"], "model": want, "real": got}
    return matched, drift, first
