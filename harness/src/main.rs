mod bigcap;
mod comps;
mod drive;
mod exec;
mod h;
mod handles;
mod json;
mod nest;
mod queries;
mod reg;
mod world;

use std::io::{BufWriter, Write};

fn arg<T: std::str::FromStr>(args: &[String], name: &str, default: T) -> T {
    args.iter().position(|a| a == name).and_then(|i| args.get(i + 1)).and_then(|v| v.parse().ok()).unwrap_or(default)
}

fn main() {
    if std::env::var("GVH_VERBOSE").is_err() {
        std::panic::set_hook(Box::new(|_| {}));
    }
    let args: Vec<String> = std::env::args().collect();
    let cmd = args.get(1).map(|s| s.as_str()).unwrap_or("help");
    let out_path: String = arg(&args, "--out", "/dev/stdout".to_string());
    let out: Box<dyn Write> = Box::new(BufWriter::new(std::fs::File::create(&out_path).expect("open out")));
    let mut hh = h::H::new(out);
    hh.max_probe = arg(&args, "--max-probe", 12usize);
    hh.cur_path = Some(format!("{}.cur", out_path));
    match cmd {
        "drive" => {
            let seed: u64 = arg(&args, "--seed", 1u64);
            let runs: usize = arg(&args, "--runs", 10usize);
            let steps: usize = arg(&args, "--steps", 60usize);
            let prof = drive::Profile {
                steps,
                faults: !args.iter().any(|a| a == "--no-faults"),
                multi_world: !args.iter().any(|a| a == "--single-world"),
                max_live: arg(&args, "--max-live", 8usize),
                big: args.iter().any(|a| a == "--big"),
            };
            if prof.big {
                hh.max_dump = 600;
            }
            let mut r = drive::Rng(seed.wrapping_mul(0x9E3779B97F4A7C15) | 1);
            hh.decl();
            for _ in 0..runs {
                drive::run_one(&mut hh, &mut r, &prof);
            }
            hh.op_reset();
        }
        "nest" => {
            let input: String = arg(&args, "--in", String::new());
            let (n, p) = nest::run(&input, &mut hh.out, args.iter().any(|a| a == "--ar-empty"));
            eprintln!("scripts={} unwound={}", n, p);
        }
        "exec" => {
            let input: String = arg(&args, "--in", String::new());
            hh.max_dump = 64;
            hh.decl();
            exec::run(&mut hh, &input);
        }
        "bigcap" => {
            bigcap::run(&mut hh.out, args.iter().any(|a| a == "--thorough"));
        }
        "handles" => {
            let input: String = arg(&args, "--in", String::new());
            let n = handles::run(&input, &mut hh.out);
            eprintln!("handles={}", n);
        }
        "boundary" => {
            hh.decl();
            drive::boundary(&mut hh);
        }
        _ => {
            eprintln!("usage: gvh drive --seed N --runs N --steps N --out FILE");
            std::process::exit(2);
        }
    }
    hh.out.flush().unwrap();
    eprintln!("events={} probes={}", hh.events_written, hh.probes_written);
}
