//! C12 at the REAL limit: capacities around 2^23..2^24 on a one-byte archetype, bulk events.
#![allow(clippy::all)]
use crate::h::guard;
use crate::json::*;
use gecs::prelude::*;
use std::io::Write;

pub struct Byte(pub u8);

mod bw {
    use super::Byte;
    use gecs::prelude::*;
    ecs_world! {
        ecs_name!(BigW);
        ecs_archetype!(Big, Byte);
    }
}
use bw::*;

const MAX: usize = 1 << 24;

struct B<'a> {
    w: Option<BigW>,
    out: &'a mut dyn Write,
    pool: Vec<(Entity<Big>, u8)>, // a sample of issued handles with the value stored for them
}

impl<'a> B<'a> {
    fn emit(&mut self, mut ev: Vec<(&'static str, J)>) {
        if let Some(w) = &self.w {
            ev.push(("len", ji(w.big.len())));
            ev.push(("cap", ji(w.big.capacity())));
            ev.push(("emp", J::B(w.big.is_empty())));
        } else {
            ev.push(("len", ji(-1)));
            ev.push(("cap", ji(-1)));
            ev.push(("emp", J::B(true)));
        }
        writeln!(self.out, "{}", J::O(ev).to_line()).unwrap();
        self.out.flush().unwrap();
    }
    fn with_capacity(&mut self, n: usize) {
        self.w = None;
        self.pool.clear();
        let r = guard(|| BigW::with_capacity(BigWCapacity { big: n }));
        let ok = r.is_ok();
        if let Ok(w) = r { self.w = Some(w); }
        self.emit(vec![("op", J::s("with_capacity")), ("n", ji(n)), ("out", J::s(if ok { "ok" } else { "panic" }))]);
    }
    /// n creations through one path; stops at the first refusal / panic. Every single step is
    /// checked here (len grows by one, capacity never shrinks); the trace gets the summary.
    fn fill(&mut self, within: bool, n: usize) {
        let mut done = 0usize;
        let mut stop = "count";
        let mut caps: Vec<usize> = Vec::new();
        let mut step_errors = 0usize;
        let w = self.w.as_mut().unwrap();
        let mut last_cap = w.big.capacity();
        caps.push(last_cap);
        while done < n {
            let before = w.big.len();
            if within {
                match w.create_within_capacity::<Big>((Byte(done as u8),)) {
                    Ok(e) => { if done % 65521 == 0 || (w.big.len() - 1).is_power_of_two() || w.big.len().is_power_of_two() { self.pool.push((e, done as u8)); } }
                    Err(c) => { if c.byte.0 != done as u8 { step_errors += 1; } stop = "err"; break; }
                }
            } else {
                match guard(|| w.create::<Big>((Byte(done as u8),))) {
                    Ok(e) => { if done % 65521 == 0 || (w.big.len() - 1).is_power_of_two() || w.big.len().is_power_of_two() { self.pool.push((e, done as u8)); } }
                    Err(()) => { stop = "panic"; break; }
                }
            }
            done += 1;
            if w.big.len() != before + 1 { step_errors += 1; }
            let c = w.big.capacity();
            if c != last_cap {
                if c < last_cap || within { step_errors += 1; }
                caps.push(c);
                last_cap = c;
            }
        }
        self.emit(vec![
            ("op", J::s("fill")), ("within", J::B(within)), ("n", ji(n)), ("done", ji(done)), ("stop", J::s(stop)),
            ("caps", J::A(caps.iter().map(|c| ji(*c)).collect())), ("step_errors", ji(step_errors)),
        ]);
    }
    fn destroy_many(&mut self, k: usize) {
        let w = self.w.as_mut().unwrap();
        // spread over the dense array: front, middle, back
        let len = w.big.len();
        let mut victims: Vec<Entity<Big>> = Vec::new();
        {
            let ents = w.big.entities();
            for j in 0..k.min(len) {
                let i = match j % 3 { 0 => j / 3, 1 => len / 2 + j / 3, _ => len - 1 - j / 3 };
                victims.push(ents[i.min(len - 1)]);
            }
        }
        victims.sort_by_key(|e| e.into_any().raw());
        victims.dedup();
        // also remove some of the sampled handles, so the sample contains stale ones afterwards
        for (e, _) in self.pool.iter().skip(3).step_by(7).take(k / 10 + 1) { if !victims.contains(e) { victims.push(*e); } }
        let mut removed = 0usize;
        let mut wrong = 0usize;
        for e in victims.iter() {
            match w.destroy(*e) { Some(_) => removed += 1, None => wrong += 1 }
            if w.contains(*e) { wrong += 1; }
        }
        self.emit(vec![("op", J::s("destroy_many")), ("k", ji(k)), ("removed", ji(removed)), ("wrong", ji(wrong))]);
    }
    /// Sampled handles (every 65521st creation and every position next to a power of two, so
    /// 2^8, 2^16, 2^23, 2^24 - 1 are in): liveness through several lookup paths, the stored value,
    /// raw round trip, and uniqueness of the sample.
    fn probe(&mut self) {
        let w = self.w.as_mut().unwrap();
        let mut live = 0usize;
        let mut wrong = 0usize;
        let mut seen = std::collections::HashSet::new();
        for (e, val) in self.pool.iter() {
            if !seen.insert(e.into_any().raw()) { wrong += 1; }
            let c = w.contains(*e);
            let any = e.into_any();
            if c != w.contains(any) || c != w.big.contains(*e) || c != w.to_direct(*e).is_some() { wrong += 1; }
            if EntityAny::from_raw(any.raw()) != Ok(any) { wrong += 1; }
            if c {
                live += 1;
                match w.view(*e) { Some(v) => { if v.byte.0 != *val || *v.entity != *e { wrong += 1; } } None => wrong += 1 }
                match w.to_direct(*e) { Some(d) => { if ecs_find!(w, d, |b: &Byte| b.0) != Some(*val) { wrong += 1; } } None => wrong += 1 }
            } else if w.view(*e).is_some() { wrong += 1; }
        }
        let listed = w.big.entities().len();
        self.emit(vec![("op", J::s("probe")), ("sampled", ji(self.pool.len())), ("live", ji(live)), ("wrong", ji(wrong)), ("listed", ji(listed))]);
    }
}

impl<'a> B<'a> {
    /// C09 at real distances: a direct handle minted now must be rejected after 1, 2^8, 2^16, 2^20
    /// and 2^24 removals from its archetype (really performed: the version is compared in full),
    /// while a handle minted after the last removal is accepted and designates its entity.
    fn direct_distance(&mut self) {
        self.w = None;
        self.pool.clear();
        let mut w = BigW::new();
        let keep = w.create::<Big>((Byte(7),));
        let mut victim = w.create::<Big>((Byte(9),));
        let old = w.to_direct(keep).unwrap();
        let old_any = w.to_direct(keep.into_any()).unwrap();
        // the first occupant of the slot that is recycled below: its generation distance grows with the removals
        let first_victim = victim;
        let mut accepted_stale_entity = 0usize;
        let mut removals: u64 = 0;
        let mut accepted_stale = 0usize;
        let mut refused_fresh = 0usize;
        let mut checked = 0usize;
        for target in [1u64, 2, 255, 256, 257, 65535, 65536, 65537, 1 << 20, (1 << 24) - 1, 1 << 24, (1 << 24) + 1, (1 << 24) + 256] {
            while removals < target {
                w.destroy(victim);
                victim = w.create::<Big>((Byte(removals as u8),));
                removals += 1;
            }
            checked += 1;
            if w.contains(old) || w.contains(old_any) || w.to_direct(old).is_some() || w.big.contains(old)
                || ecs_find!(w, old, |b: &Byte| b.0).is_some() || ecs_find_borrow!(w, old_any, |b: &Byte| b.0).is_some() {
                accepted_stale += 1;
            }
            if w.contains(first_victim) || w.contains(first_victim.into_any()) || w.to_direct(first_victim).is_some()
                || w.view(first_victim).is_some() || ecs_find!(w, first_victim.into_any(), |b: &Byte| b.0).is_some() {
                accepted_stale_entity += 1;
            }
            if !w.contains(victim) || w.view(victim).map(|v| v.byte.0) != Some((removals - 1) as u8) { refused_fresh += 1; }
            let fresh = w.to_direct(keep).unwrap();
            if !w.contains(fresh) || ecs_find!(w, fresh, |b: &Byte| b.0) != Some(7) { refused_fresh += 1; }
        }
        self.w = Some(w);
        self.emit(vec![("op", J::s("direct_distance")), ("removals", ji(removals as usize)), ("checked", ji(checked)),
                       ("accepted_stale", ji(accepted_stale)), ("accepted_stale_entity", ji(accepted_stale_entity)), ("refused_fresh", ji(refused_fresh))]);
    }
}

pub fn run(out: &mut dyn Write, thorough: bool) {
    let mut b = B { w: None, out, pool: Vec::new() };
    writeln!(b.out, "{}", J::O(vec![("op", J::s("decl")), ("max", ji(MAX)), ("debug", J::B(cfg!(debug_assertions)))]).to_line()).unwrap();
    // beyond the limit
    b.with_capacity(MAX + 1);
    b.with_capacity(MAX);
    b.fill(true, 3);
    // just below the limit: fill, grow to exactly the limit, hit the limit, refill freed positions
    b.with_capacity(MAX - 2);
    b.fill(true, MAX);          // stops with err at capacity
    b.fill(false, 1);           // must grow
    b.fill(true, MAX);          // to the new capacity
    b.fill(false, 2);           // at the limit: panic, nothing changes
    b.fill(true, 1);            // err
    b.probe();
    b.destroy_many(1000);
    b.fill(true, 2000);         // exactly the freed positions are reusable
    b.fill(false, 1);           // panic again
    b.probe();
    // half way: growth from 2^23 must succeed
    b.with_capacity(1 << 23);
    b.fill(true, MAX);
    b.fill(false, 1);
    b.fill(true, MAX);
    b.destroy_many(10);
    b.fill(true, 11);
    b.direct_distance();
    // organic growth from nothing through every growth step up to the limit
    b.with_capacity(0);
    b.fill(false, MAX + 5);
    b.probe();
    // growth out of exactly-full archetypes of every size class in between
    for n in [1usize, 3, 255, 256, 4095, 4096, 65535, 65536, 65537, 131070, 1 << 18, (1 << 20) - 1, 1 << 20, (1 << 20) + 1, 3 << 20, 1 << 22,
              (1 << 23) - 1, (1 << 23) + 1, MAX - 4, MAX - 3, MAX - 1] {
        b.with_capacity(n);
        b.fill(true, MAX);      // to capacity
        b.fill(false, 2);       // must grow (right below the limit: by one position, then the limit panic)
        b.fill(true, 5);
        b.probe();
    }
    if thorough {
        b.with_capacity(1);
        b.fill(false, (1 << 23) + 17);
        b.destroy_many(5000);
        b.fill(true, MAX);
        b.fill(false, 3);
    }
    b.w = None;
}
