//! Harness state, observation after every step, and the operations that produce trace events.
#![allow(clippy::all)]
use crate::comps::*;
use crate::json::*;
use crate::queries::{self, Dec, Mac, Step, Visit};
use crate::reg;
use crate::with_arch;
use crate::world::*;
use gecs::prelude::*;
use std::collections::HashMap;
use std::io::Write;
use std::panic::{catch_unwind, AssertUnwindSafe};

pub const NW: usize = 3;

pub fn guard<T>(f: impl FnOnce() -> T) -> Result<T, ()> {
    catch_unwind(AssertUnwindSafe(f)).map_err(|_| ())
}

pub fn jtok(t: Tok) -> J {
    J::A(vec![ji(t.0 & 0xff), ji(t.0 >> 8), ji(t.1 >> 16), ji(t.1 & 0xffff)])
}
pub fn jver(v: u32) -> J {
    J::A(vec![ji(v >> 16), ji(v & 0xffff)])
}
pub fn jvals(v: &[Val]) -> J {
    J::A(v.iter().map(|(id, p)| J::A(vec![ji(*id), ji(*p)])).collect())
}
pub fn jrow(r: &Row) -> J {
    J::A(vec![jtok(r.0), jvals(&r.1)])
}
fn jt(tag: &str) -> J {
    J::A(vec![J::s(tag)])
}
fn jn() -> J {
    jt("n")
}
fn jp() -> J {
    jt("p")
}

pub fn any_of(t: Tok) -> EntityAny {
    EntityAny::from_raw(t).expect("harness: zero generation")
}

#[derive(Clone, Copy, Debug)]
pub enum Key {
    Ent(Tok),
    Dir(EntityDirectAny),
}

#[derive(Clone, Copy, Debug)]
pub struct KeySpec {
    pub key: Key,
    pub typed: bool,
    pub world_level: bool,
    pub at: Option<usize>, // archetype index for archetype-level calls (default: the key's own)
}

impl KeySpec {
    fn id(&self) -> u8 {
        match self.key {
            Key::Ent(t) => (t.0 & 0xff) as u8,
            Key::Dir(d) => d.archetype_id(),
        }
    }
    fn json(&self) -> J {
        let (k, kd) = match (self.key, self.typed) {
            (Key::Ent(t), true) => (jtok(t), "e"),
            (Key::Ent(t), false) => (jtok(t), "a"),
            (Key::Dir(d), true) => (jtok(dtok(d)), "d"),
            (Key::Dir(d), false) => (jtok(dtok(d)), "da"),
        };
        let own = arch_of_id(self.id());
        J::O(vec![
            ("k", k),
            ("kd", J::s(kd)),
            ("lv", J::s(if self.world_level { "w" } else { "a" })),
            ("at", ji(self.at.or(own).map(|x| x as i64).unwrap_or(-1))),
        ])
    }
}

/// Result groups of one probed key: (normal-form result, ids of the paths that produced it).
#[derive(Default)]
pub struct Acc {
    pub groups: Vec<(J, Vec<i64>)>,
    pub n: i64,
}
impl Acc {
    fn add(&mut self, path: i64, r: Result<J, ()>) {
        let r = r.unwrap_or_else(|_| jp());
        self.n += 1;
        for g in self.groups.iter_mut() {
            if g.0 == r {
                g.1.push(path);
                return;
            }
        }
        self.groups.push((r, vec![path]));
    }
    fn json(&self) -> J {
        // [result, number of paths, up to three of the path ids]
        J::A(self.groups.iter().map(|(r, p)| J::A(vec![r.clone(), ji(p.len()), J::A(p.iter().take(3).map(|x| ji(*x)).collect())])).collect())
    }
}

fn n_bool(b: bool) -> J {
    if b { J::A(vec![J::s("y")]) } else { jn() }
}
fn n_row(r: Option<Row>) -> J {
    match r {
        Some(r) => J::A(vec![J::s("s"), jtok(r.0), jvals(&r.1)]),
        None => jn(),
    }
}
fn n_res(r: Option<Result<Tok, usize>>) -> J {
    match r {
        Some(Ok(t)) => J::A(vec![J::s("i"), jtok(t)]),
        Some(Err(i)) => J::A(vec![J::s("oob"), ji(i)]),
        None => jn(),
    }
}
fn n_dir(r: Option<EntityDirectAny>) -> J {
    match r {
        Some(d) => J::A(vec![J::s("d"), jtok(dtok(d))]),
        None => jn(),
    }
}

fn generic_find(w: &mut VW, key: Result<EntityAny, EntityDirectAny>, borrow: bool) -> J {
    let mut got: Option<(Tok, Option<DTok>)> = None;
    let mut runs = 0;
    let r = queries::run_find(0, borrow, w, key, &mut |v: Visit, _| {
        runs += 1;
        got = Some((v.tok, v.direct.map(dtok)));
        Dec { step: Step::Continue, set: None }
    });
    match (r, got, runs) {
        (None, None, 0) => jn(),
        (Some(_), Some((t, Some(d))), 1) => J::A(vec![J::s("f"), jtok(t), jtok(d)]),
        _ => J::A(vec![J::s("bad_find"), ji(runs)]),
    }
}

/// All lookup paths for an entity key whose id bits name archetype `A`.
fn probe_ent_own<A>(w: &mut VW, any: EntityAny, acc: &mut Acc)
where
    A: AOps + AKey<Entity<A>> + AKey<EntityAny> + ATyped<Entity<A>>,
{
    let kt = match guard(|| Entity::<A>::try_from(any)) {
        Ok(Ok(k)) => k,
        _ => panic!("harness: typed conversion of own id failed"),
    };
    acc.add(0, guard(|| n_bool(<A as ATyped<Entity<A>>>::w_contains(w, kt))));
    acc.add(1, guard(|| n_bool(w.contains(any))));
    acc.add(2, guard(|| n_dir(<A as ATyped<Entity<A>>>::w_to_direct(w, kt))));
    acc.add(3, guard(|| n_dir(w.to_direct(any))));
    acc.add(4, guard(|| n_bool(<A as AKey<Entity<A>>>::a_contains(w, kt))));
    acc.add(5, guard(|| n_bool(<A as AKey<EntityAny>>::a_contains(w, any))));
    acc.add(6, guard(|| n_res(<A as AKey<Entity<A>>>::a_resolve(w, kt))));
    acc.add(7, guard(|| n_res(<A as AKey<EntityAny>>::a_resolve(w, any))));
    acc.add(8, guard(|| n_dir(<A as AKey<Entity<A>>>::a_to_direct(w, kt))));
    acc.add(9, guard(|| n_dir(<A as AKey<EntityAny>>::a_to_direct(w, any))));
    acc.add(10, guard(|| n_row(<A as AKey<Entity<A>>>::r_view_arch(w, kt))));
    acc.add(11, guard(|| n_row(<A as AKey<EntityAny>>::r_view_arch(w, any))));
    acc.add(12, guard(|| n_row(<A as AKey<Entity<A>>>::r_viewc_arch(w, kt))));
    acc.add(13, guard(|| n_row(<A as AKey<Entity<A>>>::r_borrow_arch(w, kt))));
    acc.add(14, guard(|| n_row(<A as AKey<EntityAny>>::r_borrow_arch(w, any))));
    acc.add(15, guard(|| n_row(<A as ATyped<Entity<A>>>::r_view_world(w, kt))));
    acc.add(16, guard(|| n_row(<A as ATyped<Entity<A>>>::r_borrow_world(w, kt))));
    acc.add(17, guard(|| n_row(<A as AKey<Entity<A>>>::r_find(w, kt))));
    acc.add(18, guard(|| n_row(<A as AKey<EntityAny>>::r_find(w, any))));
    acc.add(19, guard(|| n_row(<A as AKey<Entity<A>>>::r_findb(w, kt))));
    acc.add(20, guard(|| n_row(<A as AKey<EntityAny>>::r_findb(w, any))));
    acc.add(21, guard(|| generic_find(w, Ok(any), false)));
    acc.add(22, guard(|| generic_find(w, Ok(any), true)));
    acc.add(23, guard(|| n_row(<A as AKey<Entity<A>>>::r_slices(w, kt, 0))));
    acc.add(24, guard(|| n_row(<A as AKey<EntityAny>>::r_slices(w, any, 1))));
    acc.add(25, guard(|| n_row(<A as AKey<Entity<A>>>::r_slices(w, kt, 2))));
}

/// Typed key built with `from_any_unchecked` from a handle carrying ANOTHER archetype's id bits
/// (release builds only; debug builds assert at the conversion). Typed lookups go to the storage
/// named by the type and use position and generation only.
fn probe_ent_unchecked<A>(w: &mut VW, any: EntityAny, acc: &mut Acc)
where
    A: AOps + AKey<Entity<A>> + ATyped<Entity<A>>,
{
    let kt = Entity::<A>::from_any_unchecked(any);
    acc.add(0, guard(|| n_bool(<A as ATyped<Entity<A>>>::w_contains(w, kt))));
    acc.add(2, guard(|| n_dir(<A as ATyped<Entity<A>>>::w_to_direct(w, kt))));
    acc.add(4, guard(|| n_bool(<A as AKey<Entity<A>>>::a_contains(w, kt))));
    acc.add(6, guard(|| n_res(<A as AKey<Entity<A>>>::a_resolve(w, kt))));
    acc.add(8, guard(|| n_dir(<A as AKey<Entity<A>>>::a_to_direct(w, kt))));
    acc.add(10, guard(|| n_row(<A as AKey<Entity<A>>>::r_view_arch(w, kt))));
    acc.add(12, guard(|| n_row(<A as AKey<Entity<A>>>::r_viewc_arch(w, kt))));
    acc.add(13, guard(|| n_row(<A as AKey<Entity<A>>>::r_borrow_arch(w, kt))));
    acc.add(15, guard(|| n_row(<A as ATyped<Entity<A>>>::r_view_world(w, kt))));
    acc.add(16, guard(|| n_row(<A as ATyped<Entity<A>>>::r_borrow_world(w, kt))));
    acc.add(17, guard(|| n_row(<A as AKey<Entity<A>>>::r_find(w, kt))));
    acc.add(19, guard(|| n_row(<A as AKey<Entity<A>>>::r_findb(w, kt))));
    acc.add(23, guard(|| n_row(<A as AKey<Entity<A>>>::r_slices(w, kt, 0))));
    acc.add(25, guard(|| n_row(<A as AKey<Entity<A>>>::r_slices(w, kt, 2))));
}

/// Archetype-level lookups of a dynamic key on an archetype other than the one its id names.
fn probe_ent_other<A>(w: &mut VW, any: EntityAny, acc: &mut Acc)
where
    A: AOps + AKey<EntityAny>,
{
    let b = 100 + 10 * A::IDX as i64;
    acc.add(b, guard(|| n_bool(<A as AKey<EntityAny>>::a_contains(w, any))));
    acc.add(b + 1, guard(|| n_res(<A as AKey<EntityAny>>::a_resolve(w, any))));
    acc.add(b + 2, guard(|| n_dir(<A as AKey<EntityAny>>::a_to_direct(w, any))));
    acc.add(b + 3, guard(|| n_row(<A as AKey<EntityAny>>::r_view_arch(w, any))));
    acc.add(b + 4, guard(|| n_row(<A as AKey<EntityAny>>::r_borrow_arch(w, any))));
}

fn probe_dir_own<A>(w: &mut VW, da: EntityDirectAny, acc: &mut Acc)
where
    A: AOps + AKey<EntityDirect<A>> + AKey<EntityDirectAny> + ATyped<EntityDirect<A>>,
{
    let kt = match guard(|| EntityDirect::<A>::try_from(da)) {
        Ok(Ok(k)) => k,
        _ => panic!("harness: typed conversion of own id failed"),
    };
    acc.add(0, guard(|| n_bool(<A as ATyped<EntityDirect<A>>>::w_contains(w, kt))));
    acc.add(1, guard(|| n_bool(w.contains(da))));
    acc.add(2, guard(|| n_dir(<A as ATyped<EntityDirect<A>>>::w_to_direct(w, kt))));
    acc.add(3, guard(|| n_dir(w.to_direct(da))));
    acc.add(4, guard(|| n_bool(<A as AKey<EntityDirect<A>>>::a_contains(w, kt))));
    acc.add(5, guard(|| n_bool(<A as AKey<EntityDirectAny>>::a_contains(w, da))));
    acc.add(6, guard(|| n_res(<A as AKey<EntityDirect<A>>>::a_resolve(w, kt))));
    acc.add(7, guard(|| n_res(<A as AKey<EntityDirectAny>>::a_resolve(w, da))));
    acc.add(8, guard(|| n_dir(<A as AKey<EntityDirect<A>>>::a_to_direct(w, kt))));
    acc.add(9, guard(|| n_dir(<A as AKey<EntityDirectAny>>::a_to_direct(w, da))));
    acc.add(10, guard(|| n_row(<A as AKey<EntityDirect<A>>>::r_view_arch(w, kt))));
    acc.add(11, guard(|| n_row(<A as AKey<EntityDirectAny>>::r_view_arch(w, da))));
    acc.add(12, guard(|| n_row(<A as AKey<EntityDirect<A>>>::r_viewc_arch(w, kt))));
    acc.add(13, guard(|| n_row(<A as AKey<EntityDirect<A>>>::r_borrow_arch(w, kt))));
    acc.add(14, guard(|| n_row(<A as AKey<EntityDirectAny>>::r_borrow_arch(w, da))));
    acc.add(15, guard(|| n_row(<A as ATyped<EntityDirect<A>>>::r_view_world(w, kt))));
    acc.add(16, guard(|| n_row(<A as ATyped<EntityDirect<A>>>::r_borrow_world(w, kt))));
    acc.add(17, guard(|| n_row(<A as AKey<EntityDirect<A>>>::r_find(w, kt))));
    acc.add(18, guard(|| n_row(<A as AKey<EntityDirectAny>>::r_find(w, da))));
    acc.add(19, guard(|| n_row(<A as AKey<EntityDirect<A>>>::r_findb(w, kt))));
    acc.add(20, guard(|| n_row(<A as AKey<EntityDirectAny>>::r_findb(w, da))));
    acc.add(21, guard(|| generic_find(w, Err(da), false)));
    acc.add(22, guard(|| generic_find(w, Err(da), true)));
    acc.add(23, guard(|| n_row(<A as AKey<EntityDirect<A>>>::r_slices(w, kt, 0))));
    acc.add(24, guard(|| n_row(<A as AKey<EntityDirectAny>>::r_slices(w, da, 1))));
    acc.add(25, guard(|| n_row(<A as AKey<EntityDirect<A>>>::r_slices(w, kt, 2))));
}

fn probe_dir_other<A>(w: &mut VW, da: EntityDirectAny, acc: &mut Acc)
where
    A: AOps + AKey<EntityDirectAny>,
{
    let b = 100 + 10 * A::IDX as i64;
    acc.add(b, guard(|| n_bool(<A as AKey<EntityDirectAny>>::a_contains(w, da))));
    acc.add(b + 1, guard(|| n_res(<A as AKey<EntityDirectAny>>::a_resolve(w, da))));
    acc.add(b + 2, guard(|| n_dir(<A as AKey<EntityDirectAny>>::a_to_direct(w, da))));
    acc.add(b + 3, guard(|| n_row(<A as AKey<EntityDirectAny>>::r_view_arch(w, da))));
    acc.add(b + 4, guard(|| n_row(<A as AKey<EntityDirectAny>>::r_borrow_arch(w, da))));
}

/// World-level lookups of a dynamic key whose id bits name no declared archetype.
fn probe_undeclared(w: &mut VW, key: Result<EntityAny, EntityDirectAny>, acc: &mut Acc) {
    match key {
        Ok(any) => {
            acc.add(1, guard(|| n_bool(w.contains(any))));
            acc.add(3, guard(|| n_dir(w.to_direct(any))));
        }
        Err(da) => {
            acc.add(1, guard(|| n_bool(w.contains(da))));
            acc.add(3, guard(|| n_dir(w.to_direct(da))));
        }
    }
    acc.add(21, guard(|| generic_find(w, key, false)));
    acc.add(22, guard(|| generic_find(w, key, true)));
}

pub fn probe_entity(w: &mut VW, t: Tok) -> (Acc, Acc) {
    let any = any_of(t);
    let own = arch_of_id(any.archetype_id());
    let (mut a_own, mut a_oth) = (Acc::default(), Acc::default());
    match own {
        Some(ai) => with_arch!(ai, A => probe_ent_own::<A>(w, any, &mut a_own)),
        None => probe_undeclared(w, Ok(any), &mut a_own),
    }
    for ai in 0..NARCH {
        if Some(ai) != own {
            with_arch!(ai, A => probe_ent_other::<A>(w, any, &mut a_oth));
        }
    }
    (a_own, a_oth)
}

pub fn probe_direct(w: &mut VW, d: EntityDirectAny) -> (Acc, Acc) {
    let own = arch_of_id(d.archetype_id());
    let (mut a_own, mut a_oth) = (Acc::default(), Acc::default());
    match own {
        Some(ai) => with_arch!(ai, A => probe_dir_own::<A>(w, d, &mut a_own)),
        None => probe_undeclared(w, Err(d), &mut a_own),
    }
    for ai in 0..NARCH {
        if Some(ai) != own {
            with_arch!(ai, A => probe_dir_other::<A>(w, d, &mut a_oth));
        }
    }
    (a_own, a_oth)
}

pub struct H {
    pub worlds: Vec<Option<VW>>,
    pub pool: Vec<Vec<Tok>>,              // every entity handle issued in this run, per world slot
    pub dpool: Vec<Vec<EntityDirectAny>>, // recently minted direct handles, per world slot
    pub step: u64,
    pub out: Box<dyn Write>,
    pub max_probe: usize,
    pub max_dump: usize,
    pub events_written: u64,
    pub probes_written: u64,
    pub current: String,
    pub cur_path: Option<String>,
    pub tag: i64, // script line of the event (exec), -1 otherwise
    pub conv_faults: bool, // inject panics into user conversions (`Into<Components>`) of create
    pub light: bool, // light observation: len/capacity only (long histories)
}

fn dump_json(d: &gecs::verif::Dump) -> J {
    let slot = |(ix, ver): &(u32, u32)| -> J {
        let free = ix & (1 << 31) != 0;
        let v = if *ix == u32::MAX { -1 } else { (ix & !(1 << 31)) as i64 };
        J::A(vec![ji(free as i64), ji(v), ji(ver >> 16), ji(ver & 0xffff)])
    };
    J::O(vec![
        ("ver", jver(d.version)),
        ("head", ji(if d.free_head == u32::MAX { -1 } else { (d.free_head & !(1 << 31)) as i64 })),
        ("slots", J::A(d.slots.iter().map(slot).collect())),
        ("dense", J::A(d.entities.iter().map(|t| jtok(*t)).collect())),
        ("evl", J::A(vec![ji(d.events.0), ji(d.events.1)])),
    ])
}

fn mint_one<A>(w: &VW, e: Entity<A>, variant: u64) -> Option<EntityDirectAny>
where
    A: AOps + AKey<Entity<A>> + AKey<EntityAny> + ATyped<Entity<A>>,
{
    match variant % 4 {
        0 => <A as ATyped<Entity<A>>>::w_to_direct(w, e),
        1 => w.to_direct(e.into_any()),
        2 => <A as AKey<Entity<A>>>::a_to_direct(w, e),
        _ => <A as AKey<EntityAny>>::a_to_direct(w, e.into_any()),
    }
}

fn light_mint<A>(w: &VW, step: u64) -> Vec<J>
where
    A: AOps + AKey<Entity<A>> + AKey<EntityAny> + ATyped<Entity<A>>,
{
    A::arch(w).entities().iter().map(|e| match guard(|| mint_one::<A>(w, *e, step)) {
        Ok(Some(d)) => J::A(vec![jtok(tok(*e)), J::A(vec![J::s("d"), jtok(dtok(d))])]),
        Ok(None) => J::A(vec![jtok(tok(*e)), jn()]),
        Err(()) => J::A(vec![jtok(tok(*e)), jp()]),
    }).collect()
}

fn observe_arch<A>(w: &mut VW, step: u64, max_dump: usize, minted: &mut Vec<EntityDirectAny>) -> J
where
    A: AOps + AKey<Entity<A>> + AKey<EntityAny> + ATyped<Entity<A>>,
{
    let sp = ((step + A::IDX as u64) % 16) as u8;
    let mv = step % 4;
    let (len, cap, emp) = { let a = A::arch(w); (a.len(), a.capacity(), a.is_empty()) };
    let snap = guard(|| A::snapshot(w, sp));
    let ents: Vec<Entity<A>> = A::arch(w).entities().to_vec();
    let mut mint = Vec::new();
    for e in ents {
        match guard(|| mint_one::<A>(w, e, mv)) {
            Ok(Some(d)) => {
                minted.push(d);
                mint.push(J::A(vec![jtok(tok(e)), J::A(vec![J::s("d"), jtok(dtok(d))])]));
            }
            Ok(None) => mint.push(J::A(vec![jtok(tok(e)), jn()])),
            Err(()) => mint.push(J::A(vec![jtok(tok(e)), jp()])),
        }
    }
    let av: u32 = {
        let s = format!("{:?}", A::arch(w).version());
        s.chars().filter(|c| c.is_ascii_digit()).collect::<String>().parse().unwrap_or(0)
    };
    let mut o = vec![
        ("a", ji(A::IDX)),
        ("av", jver(av)),
        ("len", ji(len)),
        ("cap", ji(cap)),
        ("emp", J::B(emp)),
        ("sp", ji(sp)),
        ("snapok", J::B(snap.is_ok())),
        ("snap", match snap { Ok(s) => J::A(s.iter().map(jrow).collect()), Err(()) => J::A(vec![]) }),
        ("mv", ji(mv)),
        ("mint", J::A(mint)),
    ];
    if cap <= max_dump {
        o.push(("dump", dump_json(&A::dump(w))));
    }
    #[cfg(feature = "events")]
    {
        let (c, d) = A::ev(w);
        o.push(("evc", J::A(c.into_iter().map(jtok).collect())));
        o.push(("evd", J::A(d.into_iter().map(jtok).collect())));
    }
    J::O(o)
}

#[cfg(feature = "events")]
fn positional_bad<'a, I: Iterator<Item = &'a EntityAny>>(mk: impl Fn() -> I) -> (usize, bool) {
    let seq: Vec<Tok> = mk().map(|e| e.raw()).collect();
    let n = seq.len();
    let mut bad = false;
    for k in 0..=(n + 1).min(48) {
        if mk().nth(k).map(|e| e.raw()) != seq.get(k).copied() { bad = true; }
        if mk().skip(k).map(|e| e.raw()).collect::<Vec<_>>() != seq.iter().skip(k).copied().collect::<Vec<_>>() { bad = true; }
        let mut i2 = mk();
        let first = i2.next().map(|e| e.raw());
        if first != seq.first().copied() || i2.nth(k).map(|e| e.raw()) != seq.get(k + 1).copied() { bad = true; }
        if k >= 1 && mk().step_by(k).map(|e| e.raw()).collect::<Vec<_>>() != seq.iter().step_by(k).copied().collect::<Vec<_>>() { bad = true; }
    }
    if mk().count() != n || mk().last().map(|e| e.raw()) != seq.last().copied() { bad = true; }
    (n, bad)
}

#[cfg(feature = "events")]
fn observe_world_events(w: &VW) -> Vec<(&'static str, J)> {
    // world-level iterators: full contents plus size_hint after every next()
    let mut out = Vec::new();
    for (name, hname, created) in [("wevc", "hintc", true), ("wevd", "hintd", false)] {
        let mut toks = Vec::new();
        let mut hints = Vec::new();
        let mut run = |it: &mut dyn Iterator<Item = &EntityAny>| {
            loop {
                let (lo, hi) = it.size_hint();
                hints.push(J::A(vec![ji(lo), ji(hi.map(|h| h as i64).unwrap_or(-1))]));
                match it.next() {
                    Some(e) => toks.push(jtok(e.raw())),
                    None => break,
                }
            }
        };
        if created { run(&mut w.iter_created()) } else { run(&mut w.iter_destroyed()) }
        // positional adaptors on the concrete iterator type (nth / skip / step_by / last / count), judged
        // against its own next()-sequence, at every offset (archetype-list boundaries included)
        let (n, bad) = if created { positional_bad(|| w.iter_created()) } else { positional_bad(|| w.iter_destroyed()) };
        if bad {
            reg::with(|r| r.anomalies.push(format!("wev_positional:{}:{}", name, n)));
        }
        out.push((name, J::A(toks)));
        out.push((hname, J::A(hints)));
    }
    out
}

impl H {
    pub fn new(out: Box<dyn Write>) -> H {
        H {
            worlds: (0..NW).map(|_| None).collect(),
            pool: vec![Vec::new(); NW],
            dpool: vec![Vec::new(); NW],
            step: 0,
            out,
            max_probe: 20,
            max_dump: 40,
            events_written: 0,
            probes_written: 0,
            current: String::new(),
            cur_path: None,
            tag: -1,
            conv_faults: false,
            light: false,
        }
    }

    pub fn decl(&mut self) {
        let archs: Vec<J> = (0..NARCH)
            .map(|ai| {
                let cols: Vec<&'static str> = with_arch!(ai, A => A::cols());
                J::O(vec![
                    ("a", ji(ai)),
                    ("name", J::s(ARCH_NAMES[ai])),
                    ("id", ji(ARCH_IDS[ai])),
                    ("cols", J::A(cols.iter().map(|c| J::s(c)).collect())),
                ])
            })
            .collect();
        let qs: Vec<J> = (0..queries::NQ)
            .map(|q| J::A(queries::describe(q).iter().map(|p| J::A(p.iter().map(|x| J::s(x)).collect())).collect()))
            .collect();
        let mut feats = Vec::new();
        if cfg!(feature = "events") { feats.push(J::s("events")); }
        if cfg!(feature = "wrapping_version") { feats.push(J::s("wrapping_version")); }
        if cfg!(feature = "32_components") { feats.push(J::s("32_components")); }
        let ev = J::O(vec![
            ("op", J::s("decl")),
            ("archs", J::A(archs)),
            ("queries", J::A(qs)),
            ("features", J::A(feats)),
            ("zst", J::A(vec![J::s("Tz")])),
            ("nodrop", J::A(vec![J::s("Qc")])),
            ("events", J::B(cfg!(feature = "events"))),
            ("wrapping", J::B(cfg!(feature = "wrapping_version"))),
            ("debug", J::B(cfg!(debug_assertions))),
            ("num_archetypes", ji(<VW as World>::NUM_ARCHETYPES)),
            ("own_paths", ji(26)),
            ("oth_paths", ji(5 * (NARCH as i64 - 1))),
            ("und_paths", ji(4)),
        ]);
        writeln!(self.out, "{}", ev.to_line()).unwrap();
        self.events_written += 1;
    }

    fn remember_direct(&mut self, wi: usize, d: EntityDirectAny) {
        let p = &mut self.dpool[wi];
        if let Some(i) = p.iter().position(|x| *x == d) {
            p.remove(i);
        }
        p.push(d);
        if p.len() > 28 {
            // evict from the older half, not strictly the oldest: some handles stay probed for long
            let victim = (self.step as usize * 7 + 3) % (p.len() / 2);
            p.remove(victim);
        }
    }

    /// Forged entity handles derived from the real dumps (classes of DESIGN.md Appendix C).
    fn forged(&self, wi: usize) -> Vec<(&'static str, Tok)> {
        let w = self.worlds[wi].as_ref().unwrap();
        let mut out: Vec<(&'static str, Tok)> = Vec::new();
        let key = |id: u8, pos: u32| (pos << 8) | id as u32;
        for ai in 0..NARCH {
            let d: gecs::verif::Dump = with_arch!(ai, A => A::dump(w));
            let id = ARCH_IDS[ai];
            if d.capacity > self.max_dump { continue; }
            let pick = (self.step as usize + ai) % d.slots.len().max(1);
            for (pos, (ix, ver)) in d.slots.iter().enumerate().skip(pick).take(2) {
                let free = ix & (1 << 31) != 0;
                if free {
                    out.push(("free_match", (key(id, pos as u32), *ver)));
                    if *ver > 1 { out.push(("free_older", (key(id, pos as u32), ver - 1))); }
                } else {
                    if *ver < u32::MAX { out.push(("live_newer", (key(id, pos as u32), ver + 1))); }
                    if *ver > 1 { out.push(("live_older", (key(id, pos as u32), ver - 1))); }
                    for other in ARCH_IDS.iter().chain([1u8, 254u8].iter()) {
                        if *other != id && (self.step + *other as u64) % 3 == 0 {
                            out.push(("other_id_same", (key(*other, pos as u32), *ver)));
                        }
                    }
                }
            }
            match (self.step + ai as u64) % 4 {
                0 => out.push(("pos_eq_cap", (key(id, d.capacity as u32), 1))),
                1 => out.push(("pos_gt_cap", (key(id, d.capacity as u32 + 3), 1))),
                2 => out.push(("pos_max", (key(id, (1 << 24) - 1), 1))),
                _ => out.push(("gen_max", (key(id, 0), u32::MAX))),
            }
        }
        if self.step % 5 == 0 { out.push(("undeclared", (key(1, 0), 1))); }
        if self.step % 5 == 3 { out.push(("undeclared", (key(254, 1), 2))); }
        for wj in 0..NW {
            if wj != wi && self.worlds[wj].is_some() {
                let p = &self.pool[wj];
                for k in 0..2 {
                    if !p.is_empty() {
                        out.push(("other_world", p[(self.step as usize * 7 + k * 3) % p.len()]));
                    }
                }
            }
        }
        out
    }

    fn observe_world(&mut self, wi: usize) -> J {
        let step = self.step;
        let max_dump = self.max_dump;
        let mut minted = Vec::new();
        let mut ar = Vec::new();
        {
            let w = self.worlds[wi].as_mut().unwrap();
            for ai in 0..NARCH {
                ar.push(with_arch!(ai, A => observe_arch::<A>(w, step, max_dump, &mut minted)));
            }
        }
        // entity-handle probes: most recent handles of this world, plus forged ones
        let mut ekeys: Vec<(&'static str, Tok)> = Vec::new();
        {
            let p = &self.pool[wi];
            let n = p.len();
            let recent = n.saturating_sub(self.max_probe);
            for t in &p[recent..] { ekeys.push(("pool", *t)); }
            // plus a rotating sample of older handles
            for k in 0..4 {
                if recent > 0 { ekeys.push(("pool", p[(step as usize * 5 + k * 11) % recent])); }
            }
        }
        ekeys.extend(self.forged(wi).into_iter().filter(|(_, t)| t.1 != 0));
        let mut dkeys: Vec<(&'static str, EntityDirectAny)> = self.dpool[wi].iter().map(|d| ("pool", *d)).collect();
        for wj in 0..NW {
            if wj != wi {
                for d in self.dpool[wj].iter().rev().take(3) { dkeys.push(("other_world", *d)); }
            }
        }
        let w = self.worlds[wi].as_mut().unwrap();
        let mut pe = Vec::new();
        for (cls, t) in ekeys {
            let (own, oth) = probe_entity(w, t);
            pe.push(J::O(vec![("k", jtok(t)), ("c", J::s(cls)), ("own", own.json()), ("oth", oth.json()), ("n", ji(own.n + oth.n))]));
        }
        if !cfg!(debug_assertions) {
            // unchecked typed conversion of a live handle of archetype B into Entity<A>: identified,
            // as documented ("logic errors"), by (type A, position, generation)
            let mut extra: Vec<(usize, Tok)> = Vec::new();
            for t in self.pool[wi].iter().rev().take(6) {
                let own = arch_of_id((t.0 & 0xff) as u8);
                for ai in 0..NARCH {
                    if Some(ai) != own && (step as usize + ai) % 2 == 0 { extra.push((ai, *t)); }
                }
            }
            for (ai, t) in extra {
                let mut acc = Acc::default();
                with_arch!(ai, A => probe_ent_unchecked::<A>(w, any_of(t), &mut acc));
                let eff: Tok = ((t.0 & !0xff) | ARCH_IDS[ai] as u32, t.1);
                pe.push(J::O(vec![("k", jtok(eff)), ("c", J::s("unchecked_foreign_bits")), ("own", acc.json()), ("oth", J::A(vec![])), ("n", ji(acc.n))]));
            }
        }
        let mut pd = Vec::new();
        for (cls, d) in dkeys {
            let (own, oth) = probe_direct(w, d);
            pd.push(J::O(vec![("k", jtok(dtok(d))), ("c", J::s(cls)), ("own", own.json()), ("oth", oth.json()), ("n", ji(own.n + oth.n))]));
        }
        self.probes_written += (pe.len() + pd.len()) as u64;
        #[allow(unused_mut)]
        let mut o = vec![("w", ji(wi)), ("ar", J::A(ar)), ("pe", J::A(pe)), ("pd", J::A(pd))];
        #[cfg(feature = "events")]
        o.extend(observe_world_events(self.worlds[wi].as_ref().unwrap()));
        // the freshly minted direct handles become probe targets of later steps
        // keep a few, spread over the archetypes (one per archetype id, rotating within it)
        let mut keep: Vec<EntityDirectAny> = Vec::new();
        for id in ARCH_IDS.iter() {
            let of: Vec<EntityDirectAny> = minted.iter().filter(|d| d.archetype_id() == *id).copied().collect();
            if !of.is_empty() { keep.push(of[(step as usize) % of.len()]); }
        }
        for d in keep { self.remember_direct(wi, d); }
        J::O(o)
    }

    /// Append registry accounting and the observation of every existing world, then write.
    /// emit with a full observation even inside a quiet burst (world-level operations need it)
    pub fn emit_full(&mut self, ev: Vec<(&'static str, J)>) {
        let saved = self.light;
        self.light = false;
        self.emit(ev);
        self.light = saved;
    }

    pub fn emit(&mut self, mut ev: Vec<(&'static str, J)>) {
        let drops = reg::take_drops();
        let clones = reg::take_clones();
        let (zl, zd, zc, ndc) = reg::with(|r| { let x = (r.z_live, r.z_drops, r.z_clones, r.nd_clones); r.z_drops = 0; r.z_clones = 0; r.nd_clones = 0; x });
        reg::clear_faults();
        ev.push(("drops", J::A(drops.iter().map(|d| ji(*d)).collect())));
        ev.push(("clones", J::A(clones.iter().map(|(a, b)| J::A(vec![ji(*a), ji(*b)])).collect())));
        ev.push(("zl", ji(zl)));
        ev.push(("zd", ji(zd)));
        ev.push(("zc", ji(zc)));
        ev.push(("nc", ji(ndc)));
        let mut obs = Vec::new();
        for wi in 0..NW {
            if self.worlds[wi].is_some() {
                if self.light {
                    let w = self.worlds[wi].as_ref().unwrap();
                    let step = self.step;
                    let ar: Vec<J> = (0..NARCH).map(|ai| {
                        let (len, cap, emp): (usize, usize, bool) = with_arch!(ai, A => { let a = A::arch(w); (a.len(), a.capacity(), a.is_empty()) });
                        // mint-all stays (to_direct only): the contract must know every current direct handle
                        let mint: Vec<J> = with_arch!(ai, A => light_mint::<A>(w, step));
                        J::O(vec![("a", ji(ai)), ("len", ji(len)), ("cap", ji(cap)), ("emp", J::B(emp)), ("mint", J::A(mint))])
                    }).collect();
                    obs.push(J::O(vec![("w", ji(wi)), ("light", J::B(true)), ("ar", J::A(ar))]));
                } else {
                    obs.push(self.observe_world(wi));
                }
            }
        }
        ev.push(("obs", J::A(obs)));
        // observation never creates or drops values; anything recorded now is an anomaly too
        let late = reg::take_drops();
        let anom = reg::take_anomalies();
        let mut an: Vec<J> = anom.iter().map(|a| { let mut it = a.splitn(2, ':'); J::A(vec![J::s(it.next().unwrap()), J::s(it.next().unwrap_or(""))]) }).collect();
        for d in late { an.push(J::A(vec![J::s("drop_during_observation"), J::S(d.to_string())])); }
        ev.push(("anom", J::A(an)));
        ev.push(("step", ji(self.step)));
        ev.push(("sl", ji(self.tag)));
        writeln!(self.out, "{}", J::O(ev).to_line()).unwrap();
        self.out.flush().unwrap();
        self.events_written += 1;
        self.step += 1;
    }

    /// Note the operation about to run in a side file, so a process-level crash can be attributed.
    pub fn begin(&mut self, what: &str) {
        self.current = what.to_string();
        if let Some(p) = &self.cur_path {
            let _ = std::fs::write(p, format!("{} (step {})", what, self.step));
        }
    }

    /// A panic escaped outside the per-call guards (inside gecs, on a path that must not panic):
    /// record it as data and abandon the run; the worlds are leaked on purpose, not dropped.
    pub fn crash(&mut self, phase: &str) {
        for wi in 0..NW {
            if let Some(w) = self.worlds[wi].take() {
                std::mem::forget(w);
            }
            self.pool[wi].clear();
            self.dpool[wi].clear();
        }
        reg::forget_all();
        reg::with(|r| r.z_live = 0);
        let ev = J::O(vec![("op", J::s("crash")), ("phase", J::s(phase)), ("during", J::S(self.current.clone())), ("signal", ji(0))]);
        writeln!(self.out, "{}", ev.to_line()).unwrap();
        self.out.flush().unwrap();
        self.events_written += 1;
    }

    // ------------------------------------------------------------------ operations

    pub fn op_reset(&mut self) {
        for wi in 0..NW {
            self.worlds[wi] = None;
            self.pool[wi].clear();
            self.dpool[wi].clear();
        }
        let live = reg::live_ids();
        let zl = reg::with(|r| r.z_live);
        let drops = reg::take_drops();
        let _ = drops;
        let ev = J::O(vec![
            ("op", J::s("reset")),
            ("live", J::A(live.iter().map(|x| ji(*x)).collect())),
            ("zl", ji(zl)),
        ]);
        writeln!(self.out, "{}", ev.to_line()).unwrap();
        self.events_written += 1;
        reg::forget_all();
        reg::with(|r| r.z_live = 0);
    }

    pub fn op_init(&mut self, wi: usize, caps: [usize; NARCH]) {
        let zero = caps.iter().all(|c| *c == 0);
        let variant = self.step % 3;
        let r = guard(|| if zero && variant == 1 { VW::new() } else if zero && variant == 2 { VW::default() }
                         else { VW::with_capacity(VWCapacity { ap: caps[0], aq: caps[1], ar: caps[2], aw: caps[3] }) });
        let out = match r {
            Ok(w) => { self.worlds[wi] = Some(w); self.pool[wi].clear(); self.dpool[wi].clear(); jt("ok") }
            Err(()) => jp(),
        };
        self.emit_full(vec![
            ("op", J::s("init")),
            ("w", ji(wi)),
            ("caps", J::A(caps.iter().map(|c| ji(*c)).collect())),
            ("out", out),
        ]);
    }

    pub fn op_create(&mut self, wi: usize, ai: usize, payload: &[i64], via: u8, within: bool) -> Option<Tok> {
        // a panic in the user's conversion into the Components struct (creation paths 4.. / 3..)
        let want_cfault = self.conv_faults && self.step % 3 == 0;
        reg::with(|r| r.conv_fault = want_cfault);
        let w = self.worlds[wi].as_mut().unwrap();
        let mut made: Option<Tok> = None;
        let (vals, out): (Vec<Val>, J) = with_arch!(ai, A => {
            let data = A::make(payload);
            let vals = A::comps_vals(&data);
            let out = if within {
                match guard(|| A::h_create_within(w, data, via)) {
                    Ok(Ok(t)) => { made = Some(t); J::A(vec![J::s("ok"), jtok(t)]) }
                    Ok(Err(back)) => { let b = A::comps_vals(&back); drop(back); J::A(vec![J::s("err"), jvals(&b)]) }
                    Err(()) => jp(),
                }
            } else {
                match guard(|| A::h_create(w, data, via)) {
                    Ok(t) => { made = Some(t); J::A(vec![J::s("ok"), jtok(t)]) }
                    Err(()) => jp(),
                }
            };
            (vals, out)
        });
        if let Some(t) = made { self.pool[wi].push(t); }
        let cfault = want_cfault && !reg::take_conv_fault();
        self.emit(vec![
            ("cfault", J::B(cfault)),
            ("op", J::s(if within { "create_within" } else { "create" })),
            ("w", ji(wi)),
            ("a", ji(ai)),
            ("via", ji(via)),
            ("vals", jvals(&vals)),
            ("out", out),
        ]);
        made
    }

    pub fn op_destroy(&mut self, wi: usize, ks: KeySpec, fault: Option<u32>) {
        reg::with(|r| r.drop_fault = fault);
        let w = self.worlds[wi].as_mut().unwrap();
        let own = arch_of_id(ks.id());
        let out: J = match (ks.key, ks.typed, ks.world_level) {
            // dynamic keys at world level: Option<()>
            (Key::Ent(t), false, true) => match guard(|| w.destroy(any_of(t))) {
                Ok(Some(())) => J::A(vec![J::s("unit")]),
                Ok(None) => jn(),
                Err(()) => jp(),
            },
            (Key::Dir(d), false, true) => match guard(|| w.destroy(d)) {
                Ok(Some(())) => J::A(vec![J::s("unit")]),
                Ok(None) => jn(),
                Err(()) => jp(),
            },
            _ => {
                let ai = if ks.typed { own } else { ks.at.or(own) };
                match ai {
                    None => jt("skip"),
                    Some(ai) => {
                        let r: Result<Option<Vec<Val>>, ()> = with_arch!(ai, A => guard(|| match (ks.key, ks.typed, ks.world_level) {
                            (Key::Ent(t), true, true) => <A as ATyped<Entity<A>>>::w_destroy(w, Entity::<A>::try_from(any_of(t)).unwrap()),
                            (Key::Ent(t), true, false) => <A as AKey<Entity<A>>>::destroy_arch(w, Entity::<A>::try_from(any_of(t)).unwrap()),
                            (Key::Ent(t), false, _) => <A as AKey<EntityAny>>::destroy_arch(w, any_of(t)),
                            (Key::Dir(d), true, true) => <A as ATyped<EntityDirect<A>>>::w_destroy(w, EntityDirect::<A>::try_from(d).unwrap()),
                            (Key::Dir(d), true, false) => <A as AKey<EntityDirect<A>>>::destroy_arch(w, EntityDirect::<A>::try_from(d).unwrap()),
                            (Key::Dir(d), false, _) => <A as AKey<EntityDirectAny>>::destroy_arch(w, d),
                        }));
                        match r {
                            Ok(Some(v)) => J::A(vec![J::s("vals"), jvals(&v)]),
                            Ok(None) => jn(),
                            Err(()) => jp(),
                        }
                    }
                }
            }
        };
        reg::clear_faults();
        self.emit(vec![("op", J::s("destroy")), ("w", ji(wi)), ("key", ks.json()), ("fault", J::B(fault.is_some())), ("out", out)]);
    }

    pub fn op_to_direct(&mut self, wi: usize, ks: KeySpec) -> Option<EntityDirectAny> {
        let w = self.worlds[wi].as_mut().unwrap();
        let own = arch_of_id(ks.id());
        let r: Result<Option<EntityDirectAny>, ()> = match (ks.key, ks.typed, ks.world_level) {
            (Key::Ent(t), false, true) => guard(|| w.to_direct(any_of(t))),
            (Key::Dir(d), false, true) => guard(|| w.to_direct(d)),
            _ => {
                let ai = if ks.typed { own } else { ks.at.or(own) };
                match ai {
                    None => Ok(None),
                    Some(ai) => with_arch!(ai, A => guard(|| match (ks.key, ks.typed, ks.world_level) {
                        (Key::Ent(t), true, true) => <A as ATyped<Entity<A>>>::w_to_direct(w, Entity::<A>::try_from(any_of(t)).unwrap()),
                        (Key::Ent(t), true, false) => <A as AKey<Entity<A>>>::a_to_direct(w, Entity::<A>::try_from(any_of(t)).unwrap()),
                        (Key::Ent(t), false, _) => <A as AKey<EntityAny>>::a_to_direct(w, any_of(t)),
                        (Key::Dir(d), true, true) => <A as ATyped<EntityDirect<A>>>::w_to_direct(w, EntityDirect::<A>::try_from(d).unwrap()),
                        (Key::Dir(d), true, false) => <A as AKey<EntityDirect<A>>>::a_to_direct(w, EntityDirect::<A>::try_from(d).unwrap()),
                        (Key::Dir(d), false, _) => <A as AKey<EntityDirectAny>>::a_to_direct(w, d),
                    })),
                }
            }
        };
        let (out, got) = match r {
            Ok(Some(d)) => (J::A(vec![J::s("d"), jtok(dtok(d))]), Some(d)),
            Ok(None) => (jn(), None),
            Err(()) => (jp(), None),
        };
        if let Some(d) = got { self.remember_direct(wi, d); }
        self.emit(vec![("op", J::s("to_direct")), ("w", ji(wi)), ("key", ks.json()), ("out", out)]);
        got
    }

    pub fn op_write(&mut self, wi: usize, ks: KeySpec, path: u8, col: usize, p: i64) {
        let w = self.worlds[wi].as_mut().unwrap();
        let own = arch_of_id(ks.id());
        let ai = if ks.typed { own } else { ks.at.or(own) };
        let out = match ai {
            None => jt("skip"),
            Some(ai) => {
                let r: Result<bool, ()> = with_arch!(ai, A => guard(|| match (ks.key, ks.typed) {
                    (Key::Ent(t), true) => <A as AKey<Entity<A>>>::write(w, Entity::<A>::try_from(any_of(t)).unwrap(), path, col, p),
                    (Key::Ent(t), false) => <A as AKey<EntityAny>>::write(w, any_of(t), path, col, p),
                    (Key::Dir(d), true) => <A as AKey<EntityDirect<A>>>::write(w, EntityDirect::<A>::try_from(d).unwrap(), path, col, p),
                    (Key::Dir(d), false) => <A as AKey<EntityDirectAny>>::write(w, d, path, col, p),
                }));
                match r { Ok(true) => jt("ok"), Ok(false) => jn(), Err(()) => jp() }
            }
        };
        self.emit(vec![
            ("op", J::s("write")), ("w", ji(wi)), ("key", ks.json()),
            ("path", ji(path)), ("col", ji(col)), ("p", ji(p)), ("out", out),
        ]);
    }

    /// Run one of the three loop macros with a decision per visited entity.
    pub fn op_loop(&mut self, wi: usize, q: usize, mac: Mac, decide: &HashMap<Tok, Step>, default: Step, set: Option<i64>, fault: Option<u32>) {
        let mut visits: Vec<J> = Vec::new();
        let mut minted: Vec<EntityDirectAny> = Vec::new();
        reg::with(|r| r.closure_fault = fault);
        let w = self.worlds[wi].as_mut().unwrap();
        let r = guard(|| {
            queries::run_loop(q, mac, w, &mut |v: Visit, wref: Option<&VW>| {
                let step = match mac {
                    Mac::IterDestroy if !reg::with(|r| r.plain_step) => *decide.get(&v.tok).unwrap_or(&default),
                    _ => match *decide.get(&v.tok).unwrap_or(&default) { Step::Break | Step::BreakDestroy => Step::Break, _ => Step::Continue },
                };
                let mut o = vec![
                    ("a", ji(v.a)),
                    ("tok", jtok(v.tok)),
                    ("bound", J::A(v.bound.iter().map(|(n, val)| J::A(vec![J::s(n), J::A(vec![ji(val.0), ji(val.1)])])).collect())),
                    ("dec", J::s(match step { Step::Continue => "c", Step::Break => "b", Step::ContinueDestroy => "cd", Step::BreakDestroy => "bd" })),
                ];
                if let Some(d) = v.direct {
                    o.push(("d", jtok(dtok(d))));
                    minted.push(d);
                    // in borrow mode the world is readable: the handle must be accepted right now
                    if let Some(wr) = wref {
                        o.push(("dnow", n_bool(wr.contains(d))));
                    }
                }
                visits.push(J::O(o));
                Dec { step, set }
            })
        });
        reg::clear_faults();
        reg::with(|r| r.plain_step = false);
        for d in minted.iter().rev().take(6) { self.remember_direct(wi, *d); }
        self.emit(vec![
            ("op", J::s("loop")), ("w", ji(wi)), ("q", ji(q)),
            ("mac", J::s(match mac { Mac::Iter => "iter", Mac::IterBorrow => "iter_borrow", Mac::IterDestroy => "iter_destroy" })),
            ("set", match set { Some(p) => J::A(vec![ji(p)]), None => J::A(vec![]) }),
            ("visits", J::A(visits)),
            ("fault", J::B(fault.is_some())),
            ("out", if r.is_ok() { jt("done") } else { jp() }),
        ]);
    }

    pub fn op_find(&mut self, wi: usize, q: usize, borrow: bool, key: Key, set: Option<i64>, fault: Option<u32>) {
        let mut visits: Vec<J> = Vec::new();
        let mut minted: Vec<EntityDirectAny> = Vec::new();
        reg::with(|r| r.closure_fault = fault);
        let w = self.worlds[wi].as_mut().unwrap();
        let k = match key { Key::Ent(t) => Ok(any_of(t)), Key::Dir(d) => Err(d) };
        let r = guard(|| {
            queries::run_find(q, borrow, w, k, &mut |v: Visit, wref: Option<&VW>| {
                let mut o = vec![
                    ("a", ji(v.a)),
                    ("tok", jtok(v.tok)),
                    ("bound", J::A(v.bound.iter().map(|(n, val)| J::A(vec![J::s(n), J::A(vec![ji(val.0), ji(val.1)])])).collect())),
                    ("dec", J::s("c")),
                ];
                if let Some(d) = v.direct {
                    o.push(("d", jtok(dtok(d))));
                    minted.push(d);
                    if let Some(wr) = wref { o.push(("dnow", n_bool(wr.contains(d)))); }
                }
                visits.push(J::O(o));
                Dec { step: Step::Continue, set }
            })
        });
        reg::clear_faults();
        for d in minted { self.remember_direct(wi, d); }
        let ks = KeySpec { key, typed: false, world_level: true, at: None };
        self.emit(vec![
            ("op", J::s("find")), ("w", ji(wi)), ("q", ji(q)), ("borrow", J::B(borrow)), ("key", ks.json()),
            ("set", match set { Some(p) => J::A(vec![ji(p)]), None => J::A(vec![]) }),
            ("visits", J::A(visits)),
            ("fault", J::B(fault.is_some())),
            ("out", match r { Ok(Some(_)) => jt("some"), Ok(None) => jn(), Err(()) => jp() }),
        ]);
    }

    pub fn op_clone(&mut self, src: usize, dst: usize, fault: Option<u32>) {
        reg::with(|r| r.clone_fault = fault);
        let r = { let w = self.worlds[src].as_ref().unwrap(); guard(|| w.clone()) };
        reg::clear_faults();
        let out = match r {
            Ok(c) => {
                self.worlds[dst] = Some(c);
                self.pool[dst] = self.pool[src].clone();
                self.dpool[dst] = self.dpool[src].clone();
                jt("ok")
            }
            Err(()) => jp(),
        };
        self.emit_full(vec![("op", J::s("clone")), ("w", ji(src)), ("dst", ji(dst)), ("fault", J::B(fault.is_some())), ("out", out)]);
    }

    /// `dst.clone_from(&src)` into an EXISTING world (Clone::clone_from may be overridden to recycle
    /// allocations): afterwards dst must answer like src, its previous values are dropped.
    pub fn op_clone_from(&mut self, src: usize, dst: usize) {
        let mut d = self.worlds[dst].take().unwrap();
        let r = { let s = self.worlds[src].as_ref().unwrap(); guard(|| { d.clone_from(s); d }) };
        let out = match r {
            Ok(d) => {
                self.worlds[dst] = Some(d);
                self.pool[dst] = self.pool[src].clone();
                self.dpool[dst] = self.dpool[src].clone();
                jt("ok")
            }
            Err(()) => { self.pool[dst].clear(); self.dpool[dst].clear(); jp() }
        };
        self.emit_full(vec![("op", J::s("clone")), ("w", ji(src)), ("dst", ji(dst)), ("into", J::B(true)), ("fault", J::B(false)), ("out", out)]);
    }

    /// `dst.<arch a>.clone_from(&src.<arch a>)`: one archetype of dst becomes a copy of src's; with an
    /// injected Clone or Drop fault the panic is caught and the world keeps being used.
    pub fn op_arch_clone_from(&mut self, src: usize, dst: usize, ai: usize, clone_fault: Option<u32>, drop_fault: Option<u32>) {
        reg::with(|r| { r.clone_fault = clone_fault; r.drop_fault = drop_fault; });
        let mut d = self.worlds[dst].take().unwrap();
        let r = { let s = self.worlds[src].as_ref().unwrap(); guard(|| with_arch!(ai, A => A::arch_clone_from(&mut d, s))) };
        reg::clear_faults();
        self.worlds[dst] = Some(d);
        if r.is_ok() {
            // handles of that archetype issued by src are now handles of dst too
            let id = ARCH_IDS[ai] as u32;
            let extra: Vec<Tok> = self.pool[src].iter().copied().filter(|t| t.0 & 0xff == id).collect();
            for t in extra { if !self.pool[dst].contains(&t) { self.pool[dst].push(t); } }
            let dx: Vec<EntityDirectAny> = self.dpool[src].iter().copied().filter(|x| x.archetype_id() as u32 == id).collect();
            for x in dx { self.remember_direct(dst, x); }
        }
        self.emit_full(vec![("op", J::s("arch_clone_from")), ("w", ji(src)), ("dst", ji(dst)), ("a", ji(ai)),
                       ("fault", J::B(clone_fault.is_some() || drop_fault.is_some())),
                       ("out", if r.is_ok() { jt("ok") } else { jp() })]);
    }

    /// Leak a runtime-borrow guard (safe code: `mem::forget`). Nothing observable changes for the
    /// `&mut` API; the harness stops using borrow-based paths on this world afterwards.
    pub fn op_leak(&mut self, wi: usize, ai: usize, col: usize, mutable: bool) {
        let w = self.worlds[wi].as_ref().unwrap();
        let r = guard(|| with_arch!(ai, A => A::leak_guard(w, col, mutable)));
        self.emit(vec![("op", J::s("noop")), ("what", J::s("leak_guard")), ("w", ji(wi)), ("a", ji(ai)), ("leaked", J::B(r.is_ok()))]);
    }

    pub fn op_drop(&mut self, wi: usize, fault: Option<u32>) {
        reg::with(|r| r.drop_fault = fault);
        let w = self.worlds[wi].take().unwrap();
        let r = guard(move || drop(w));
        reg::clear_faults();
        self.pool[wi].clear();
        self.dpool[wi].clear();
        self.emit_full(vec![("op", J::s("drop_world")), ("w", ji(wi)), ("fault", J::B(fault.is_some())), ("out", if r.is_ok() { jt("ok") } else { jp() })]);
    }

    pub fn op_clear_events(&mut self, wi: usize, scope: Option<usize>) {
        #[cfg(feature = "events")]
        {
            let w = self.worlds[wi].as_mut().unwrap();
            match scope {
                None => w.clear_events(),
                Some(ai) => with_arch!(ai, A => A::clear_ev(w)),
            }
        }
        self.emit(vec![
            ("op", J::s("clear_events")), ("w", ji(wi)),
            ("scope", ji(scope.map(|x| x as i64).unwrap_or(-1))),
            ("active", J::B(cfg!(feature = "events"))),
        ]);
    }

    pub fn op_preset(&mut self, wi: usize, ai: usize, slot: u32, arch: u32) {
        let w = self.worlds[wi].as_mut().unwrap();
        let r = guard(|| with_arch!(ai, A => A::preset(w, slot, arch)));
        self.emit_full(vec![
            ("op", J::s("preset")), ("w", ji(wi)), ("a", ji(ai)),
            ("slot", jver(slot)), ("arch", jver(arch)),
            ("out", if r.is_ok() { jt("ok") } else { jp() }),
        ]);
    }
}
