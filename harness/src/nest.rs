//! Executes the access nestings enumerated by BorrowMC on the real crate (C11).
//! Input: one script per line, an s-expression forest "(k a c m e children...)..."; output: one JSON
//! line per script with the observed outcome of every attempted access, in order.
#![allow(clippy::all)]
use crate::comps::*;
use crate::h::guard;
use crate::json::*;
use crate::world::*;
use gecs::prelude::*;
use std::cell::{Cell, RefCell};
use std::io::{BufRead, Write};

#[derive(Debug)]
struct Node {
    k: String,
    a: String,
    c: String,
    m: String,
    e: usize,
    children: Vec<Node>,
}

fn parse_forest(toks: &[String], pos: &mut usize) -> Vec<Node> {
    let mut out = Vec::new();
    while *pos < toks.len() && toks[*pos] == "(" {
        *pos += 1;
        let k = toks[*pos].clone();
        let a = toks[*pos + 1].clone();
        let c = toks[*pos + 2].clone();
        let m = toks[*pos + 3].clone();
        let e: usize = toks[*pos + 4].parse().unwrap();
        *pos += 5;
        let children = parse_forest(toks, pos);
        assert!(toks[*pos] == ")", "harness: malformed nest script");
        *pos += 1;
        out.push(Node { k, a, c, m, e, children });
    }
    out
}

struct Ctx<'a> {
    w: &'a VW,
    aq: Vec<Entity<Aq>>,
    ar: Vec<Entity<Ar>>,
    log: RefCell<Vec<(String, i64)>>, // ("try"|"ok", value seen)
    counter: Cell<i64>,
}

fn run_nodes(nodes: &[Node], cx: &Ctx) {
    for n in nodes {
        run_node(n, cx);
    }
}

macro_rules! body {
    ($cx:ident, $n:ident, $k:ident, $x:expr, mutable) => {{
        let seen = rd(&*$x).1;
        $x.set($k);
        $cx.log.borrow_mut().last_mut().unwrap().clone_from(&("ok".to_string(), seen));
        run_nodes(&$n.children, $cx);
    }};
    ($cx:ident, $n:ident, $k:ident, $x:expr, shared) => {{
        let seen = rd(&*$x).1;
        $cx.log.borrow_mut().last_mut().unwrap().clone_from(&("ok".to_string(), seen));
        run_nodes(&$n.children, $cx);
    }};
}

macro_rules! arms {
    ($cx:ident, $n:ident, $k:ident, $A:ident, $f:ident, $ents:ident, $C:ty) => {{
        let w = $cx.w;
        match ($n.k.as_str(), $n.m.as_str()) {
            ("fb", "s") => { let e = $cx.$ents[$n.e - 1]; ecs_find_borrow!(w, e, |_e: &Entity<$A>, c: &$C| { body!($cx, $n, $k, c, shared) }); }
            ("fb", "m") => { let e = $cx.$ents[$n.e - 1]; ecs_find_borrow!(w, e, |_e: &Entity<$A>, c: &mut $C| { body!($cx, $n, $k, c, mutable) }); }
            ("ib", "s") => { let first = Cell::new(true); ecs_iter_borrow!(w, |_e: &Entity<$A>, c: &$C| { if first.replace(false) { body!($cx, $n, $k, c, shared) } }); }
            ("ib", "m") => { let first = Cell::new(true); ecs_iter_borrow!(w, |_e: &Entity<$A>, c: &mut $C| { if first.replace(false) { body!($cx, $n, $k, c, mutable) } }); }
            ("bc", "s") => { let e = $cx.$ents[$n.e - 1]; let b = w.borrow(e).expect("live entity"); let g = b.component::<$C>(); body!($cx, $n, $k, g, shared); drop(g); }
            ("bc", "m") => { let e = $cx.$ents[$n.e - 1]; let b = w.borrow(e).expect("live entity"); let mut g = b.component_mut::<$C>(); body!($cx, $n, $k, g, mutable); drop(g); }
            ("bs", "s") => { let g = w.$f.borrow_slice::<$C>(); if g.len() > 0 { let x = &g[0]; body!($cx, $n, $k, x, shared); } else { $cx.log.borrow_mut().last_mut().unwrap().0 = "ok".to_string(); run_nodes(&$n.children, $cx); } drop(g); }
            ("bs", "m") => { let mut g = w.$f.borrow_slice_mut::<$C>(); if g.len() > 0 { { let x = &mut g[0]; let seen = rd(&*x).1; x.set($k); $cx.log.borrow_mut().last_mut().unwrap().clone_from(&("ok".to_string(), seen)); } run_nodes(&$n.children, $cx); } else { $cx.log.borrow_mut().last_mut().unwrap().0 = "ok".to_string(); run_nodes(&$n.children, $cx); } drop(g); }
            _ => panic!("harness: bad nest access"),
        }
    }};
}

fn run_node(n: &Node, cx: &Ctx) {
    let k = cx.counter.get() + 1;
    cx.counter.set(k);
    cx.log.borrow_mut().push(("try".to_string(), -1));
    if n.k == "cl" {
        let c = cx.w.clone();
        drop(c);
        cx.log.borrow_mut().last_mut().unwrap().0 = "ok".to_string();
        return;
    }
    if n.k == "cb" {
        // clone as an OUTER access: the children run from inside Clone::clone of a component that only
        // the populated archetype `a` holds (Ta: Aq -- Ap is empty here; Th: Ar), i.e. while clone
        // has the columns of `a` shared-borrowed. The world is reached through a raw pointer, which
        // stands for the Rc / thread-local a safe client would use.
        let my = cx.log.borrow().len() - 1;
        let ty: &'static str = if n.a == "Aq" { "Ta" } else { "Th" };
        let np = n as *const Node as usize;
        let cp = cx as *const Ctx as usize;
        crate::reg::CLONE_HOOK.with(|h| *h.borrow_mut() = Some((ty, Box::new(move || {
            let (n, cx) = unsafe { (&*(np as *const Node), &*(cp as *const Ctx)) };
            cx.log.borrow_mut()[my].0 = "ok".to_string();
            run_nodes(&n.children, cx);
        }))));
        let r = guard(|| { let c = cx.w.clone(); drop(c); });
        crate::reg::CLONE_HOOK.with(|h| *h.borrow_mut() = None);
        if r.is_err() { std::panic::resume_unwind(Box::new("nested access refused inside clone")); }
        return;
    }
    // an iter over an empty archetype never invokes its closure: it counts as done, without body
    let empty = match n.a.as_str() { "Aq" => cx.w.aq.is_empty(), _ => cx.w.ar.is_empty() };
    match (n.a.as_str(), n.c.as_str()) {
        ("Aq", "Ta") => arms!(cx, n, k, Aq, aq, aq, Ta),
        ("Aq", "Tb") => arms!(cx, n, k, Aq, aq, aq, Tb),
        ("Aq", "Tz") => arms!(cx, n, k, Aq, aq, aq, Tz),
        ("Ar", "Tb") => arms!(cx, n, k, Ar, ar, ar, Tb),
        ("Ar", "Th") => arms!(cx, n, k, Ar, ar, ar, Th),
        _ => panic!("harness: bad nest cell"),
    }
    if n.k == "ib" && empty {
        let mut l = cx.log.borrow_mut();
        let last = l.last_mut().unwrap();
        if last.0 == "try" { last.0 = "ok".to_string(); }
    }
}

pub fn run(input: &str, out: &mut dyn Write, ar_empty: bool) -> (u64, u64) {
    let f = std::io::BufReader::new(std::fs::File::open(input).expect("open nest scripts"));
    let (mut n, mut panics) = (0u64, 0u64);
    for line in f.lines() {
        let line = line.unwrap();
        if line.trim().is_empty() { continue; }
        let toks: Vec<String> = line.replace("(", " ( ").replace(")", " ) ").split_whitespace().map(|s| s.to_string()).collect();
        let mut pos = 0;
        let forest = parse_forest(&toks, &mut pos);
        let mut w = VW::new();
        let aq: Vec<Entity<Aq>> = (0..2).map(|_| w.create::<Aq>(<Aq as AOps>::make(&[]))).collect();
        let ar: Vec<Entity<Ar>> = if ar_empty { Vec::new() } else {
            (0..2).map(|_| w.create::<Ar>(<Ar as AOps>::make(&[]))).collect()
        };
        let cx = Ctx { w: &w, aq, ar, log: RefCell::new(Vec::new()), counter: Cell::new(0) };
        let r = guard(|| run_nodes(&forest, &cx));
        if r.is_err() { panics += 1; }
        // at rest every cell must be free again, and the world usable
        let free = [
            guard(|| { let _g = w.aq.borrow_slice_mut::<Tz>(); }).is_ok(),
            guard(|| { let _g = w.aq.borrow_slice_mut::<Ta>(); }).is_ok(),
            guard(|| { let _g = w.aq.borrow_slice_mut::<Tb>(); }).is_ok(),
            guard(|| { let _g = w.ar.borrow_slice_mut::<Tb>(); }).is_ok(),
            guard(|| { let _g = w.ar.borrow_slice_mut::<Th>(); }).is_ok(),
        ];
        let clone_ok = guard(|| { let c = w.clone(); drop(c); }).is_ok();
        let obs: Vec<J> = cx.log.borrow().iter().map(|(s, v)| J::A(vec![J::s(if s == "try" { "panic" } else { "ok" }), ji(*v)])).collect();
        let final_vals = J::A(vec![
            J::A(w.aq.borrow_slice::<Ta>().iter().map(|x| ji(x.p)).collect()),
            J::A(w.aq.borrow_slice::<Tb>().iter().map(|x| ji(x.p)).collect()),
            J::A(w.ar.borrow_slice::<Tb>().iter().map(|x| ji(x.p)).collect()),
            J::A(w.ar.borrow_slice::<Th>().iter().map(|x| ji(*x.p)).collect()),
        ]);
        let o = J::O(vec![("i", ji(n)), ("obs", J::A(obs)), ("unwound", J::B(r.is_err())),
                          ("free", J::A(free.iter().map(|b| J::B(*b)).collect())), ("clone_ok", J::B(clone_ok)), ("final", final_vals)]);
        drop(cx);
        drop(w);
        // everything the script created (including clones made by refused or successful clone()
        // calls) must have been dropped together with the worlds
        let leaked = crate::reg::live_ids().len();
        let zl = crate::reg::with(|r| r.z_live);
        let anomalies = crate::reg::take_anomalies().len();
        let mut o = o;
        if let J::O(ref mut v) = o {
            v.push(("leaked", ji(leaked)));
            v.push(("zleaked", ji(zl)));
            v.push(("anomalies", ji(anomalies)));
        }
        writeln!(out, "{}", o.to_line()).unwrap();
        n += 1;
        crate::reg::forget_all();
        crate::reg::with(|r| r.z_live = 0);
    }
    (n, panics)
}
