//! Instrumented component types of the harness world.
use crate::reg;

pub type Val = (u64, i64); // (instance id, payload)

pub trait Comp {
    const NAME: &'static str;
    fn new(p: i64) -> Self;
    fn val(&self) -> Val;
    fn set(&mut self, p: i64);
    /// Integrity self-check (alignment, redundant fields); pushes registry anomalies.
    fn check(&self) {}
}

macro_rules! comp_plain {
    ($($name:ident),*) => {$(
        pub struct $name { pub id: u64, pub p: i64 }
        impl Comp for $name {
            const NAME: &'static str = stringify!($name);
            fn new(p: i64) -> Self { Self { id: reg::born(), p } }
            fn val(&self) -> Val { reg::check_live(self.id); (self.id, self.p) }
            fn set(&mut self, p: i64) { self.p = p; }
        }
        impl Drop for $name { fn drop(&mut self) { reg::dropped(self.id); } }
        impl Clone for $name {
            fn clone(&self) -> Self { reg::clone_hook(stringify!($name)); let id = reg::cloned(self.id); Self { id, p: self.p } }
        }
    )*};
}

comp_plain!(Ta, Tb);
comp_plain!(Qa, Qe, Qf, Qg, Qi, Qj, Qk, Ql, Qm, Qn, Qo, Qp);
#[cfg(feature = "32_components")]
comp_plain!(Ra, Rb, Rc, Rd, Re, Rf, Rg, Rh, Ri, Rj, Rk, Rl, Rm, Rn, Ro, Rp);

/// Zero-sized component with Drop: accounted by count only.
pub struct Tz;
impl Comp for Tz {
    const NAME: &'static str = "Tz";
    fn new(_p: i64) -> Self {
        reg::with(|r| r.z_live += 1);
        Tz
    }
    fn val(&self) -> Val {
        (0, 0)
    }
    fn set(&mut self, _p: i64) {}
}
impl Drop for Tz {
    fn drop(&mut self) {
        reg::with(|r| {
            r.z_live -= 1;
            r.z_drops += 1;
        });
    }
}
impl Clone for Tz {
    fn clone(&self) -> Self {
        reg::with(|r| {
            r.z_live += 1;
            r.z_clones += 1;
        });
        Tz
    }
}

/// Heap-owning component.
pub struct Th {
    pub id: u64,
    pub p: Box<i64>,
    pub s: String,
}
impl Comp for Th {
    const NAME: &'static str = "Th";
    fn new(p: i64) -> Self {
        Self { id: reg::born(), p: Box::new(p), s: format!("h{}", p) }
    }
    fn val(&self) -> Val {
        reg::check_live(self.id);
        (self.id, *self.p)
    }
    fn set(&mut self, p: i64) {
        *self.p = p;
        self.s = format!("h{}", p);
    }
    fn check(&self) {
        if self.s != format!("h{}", *self.p) {
            reg::with(|r| r.anomalies.push(format!("corrupt_Th:{}", self.id)));
        }
    }
}
impl Drop for Th {
    fn drop(&mut self) {
        reg::dropped(self.id);
    }
}
impl Clone for Th {
    fn clone(&self) -> Self {
        reg::clone_hook("Th");
        let id = reg::cloned(self.id);
        Self { id, p: self.p.clone(), s: self.s.clone() }
    }
}

/// Over-aligned component.
#[repr(align(64))]
pub struct Tal {
    pub id: u64,
    pub p: i64,
}
impl Comp for Tal {
    const NAME: &'static str = "Tal";
    fn new(p: i64) -> Self {
        Self { id: reg::born(), p }
    }
    fn val(&self) -> Val {
        reg::check_live(self.id);
        (self.id, self.p)
    }
    fn set(&mut self, p: i64) {
        self.p = p;
    }
    fn check(&self) {
        if (self as *const Tal as usize) % 64 != 0 {
            reg::with(|r| r.anomalies.push(format!("misaligned_Tal:{}", self.id)));
        }
    }
}
impl Drop for Tal {
    fn drop(&mut self) {
        reg::dropped(self.id);
    }
}
impl Clone for Tal {
    fn clone(&self) -> Self {
        let id = reg::cloned(self.id);
        Self { id, p: self.p }
    }
}

/// Wide (about 0.8 KB), oddly sized component with redundant fields: block-wise copies, size-class
/// dependent reallocation and partial copies show up as a corrupt blob.
pub struct Tw {
    pub id: u64,
    pub p: i64,
    pub wide: u128,
    pub blob: [u64; 96],
    pub pad: [u8; 7],
}
fn blob_of(id: u64, p: i64) -> [u64; 96] {
    let mut b = [0u64; 96];
    for (i, x) in b.iter_mut().enumerate() {
        *x = id.wrapping_mul(0x9E37_79B9_7F4A_7C15).wrapping_add(p as u64).rotate_left(i as u32 % 63) ^ i as u64;
    }
    b
}
fn wide_of(id: u64, p: i64) -> u128 {
    ((id as u128) << 64) ^ (p as u64 as u128) ^ 0x5a5a_5a5a_5a5a_5a5a_a5a5_a5a5_a5a5_a5a5
}
impl Comp for Tw {
    const NAME: &'static str = "Tw";
    fn new(p: i64) -> Self {
        let id = reg::born();
        Self { id, p, wide: wide_of(id, p), blob: blob_of(id, p), pad: [0xAB; 7] }
    }
    fn val(&self) -> Val {
        reg::check_live(self.id);
        (self.id, self.p)
    }
    fn set(&mut self, p: i64) {
        self.p = p;
        self.wide = wide_of(self.id, p);
        self.blob = blob_of(self.id, p);
    }
    fn check(&self) {
        if self.wide != wide_of(self.id, self.p) || self.pad != [0xAB; 7] || self.blob != blob_of(self.id, self.p) {
            reg::with(|r| r.anomalies.push(format!("corrupt_Tw:{}", self.id)));
        }
    }
}
impl Drop for Tw {
    fn drop(&mut self) {
        reg::dropped(self.id);
    }
}
impl Clone for Tw {
    fn clone(&self) -> Self {
        let id = reg::cloned(self.id);
        Self { id, p: self.p, wide: wide_of(id, self.p), blob: blob_of(id, self.p), pad: self.pad }
    }
}

/// Size / alignment classes beyond 16-byte plain structs: 17 bytes with alignment 1 (packed),
/// 19 bytes with alignment 1, and a 4 KiB + 24 bytes page-crossing blob. All carry a check byte
/// pattern derived from (id, p), so a copy with a wrong stride or length shows up as corruption.
macro_rules! comp_odd {
    ($name:ident, $tail:expr) => {
        #[repr(C, packed)]
        pub struct $name { pub id: u64, pub p: i64, pub tail: [u8; $tail] }
        impl $name {
            fn tail_of(id: u64, p: i64) -> [u8; $tail] {
                let mut t = [0u8; $tail];
                for (i, x) in t.iter_mut().enumerate() {
                    *x = (id.wrapping_mul(31).wrapping_add(p as u64).wrapping_add(i as u64 * 7) & 0xff) as u8 ^ 0xC3;
                }
                t
            }
        }
        impl Comp for $name {
            const NAME: &'static str = stringify!($name);
            fn new(p: i64) -> Self { let id = reg::born(); Self { id, p, tail: Self::tail_of(id, p) } }
            fn val(&self) -> Val { let (id, p) = (self.id, self.p); reg::check_live(id); (id, p) }
            fn set(&mut self, p: i64) { let id = self.id; self.p = p; self.tail = Self::tail_of(id, p); }
            fn check(&self) {
                let (id, p, tail) = (self.id, self.p, self.tail);
                if tail != Self::tail_of(id, p) {
                    reg::with(|r| r.anomalies.push(format!("corrupt_{}:{}", stringify!($name), id)));
                }
            }
        }
        impl Drop for $name { fn drop(&mut self) { let id = self.id; reg::dropped(id); } }
        impl Clone for $name {
            fn clone(&self) -> Self { let (oid, p) = (self.id, self.p); let id = reg::cloned(oid); Self { id, p, tail: Self::tail_of(id, p) } }
        }
    };
}
comp_odd!(Qb, 1);
comp_odd!(Qd, 3);
comp_odd!(Qh, 4104);

/// A component WITHOUT drop glue (`needs_drop` is false) but with an observable `Clone`: it has no
/// identity (id 0), carries a payload with a redundant copy, and counts its Clone::clone calls.
pub struct Qc { pub p: i64, pub chk: i64 }
impl Comp for Qc {
    const NAME: &'static str = "Qc";
    fn new(p: i64) -> Self { Self { p, chk: !p } }
    fn val(&self) -> Val { (0, self.p) }
    fn set(&mut self, p: i64) { self.p = p; self.chk = !p; }
    fn check(&self) {
        if self.chk != !self.p {
            reg::with(|r| r.anomalies.push(format!("corrupt_Qc:{}", self.p)));
        }
    }
}
impl Clone for Qc {
    fn clone(&self) -> Self { reg::nd_cloned(); Self { p: self.p, chk: self.chk } }
}

/// Read a component through the `Comp` trait, running its integrity check.
pub fn rd<C: Comp>(c: &C) -> Val {
    c.check();
    c.val()
}
