//! The harness world and per-archetype access paths (every public way to reach an entity).
#![allow(clippy::all)]
use crate::comps::*;
use crate::reg;
use gecs::prelude::*;

#[cfg(not(vw_shape_b))]
ecs_world! {
    ecs_name!(VW);

    #[archetype_id(3)]
    ecs_archetype!(Ap, Ta);

    ecs_archetype!(Aq, Ta, Tb, Tz);

    #[archetype_id(255)]
    ecs_archetype!(Ar, Tb, Th, Tal, Tw);

    #[archetype_id(0)]
    ecs_archetype!(
        Aw,
        Qa, Qb, Qc, Qd, Qe, Qf, Qg, Qh, Qi, Qj, Qk, Ql, Qm, Qn, Qo, Qp,
        #[cfg(feature = "32_components")] Ra,
        #[cfg(feature = "32_components")] Rb,
        #[cfg(feature = "32_components")] Rc,
        #[cfg(feature = "32_components")] Rd,
        #[cfg(feature = "32_components")] Re,
        #[cfg(feature = "32_components")] Rf,
        #[cfg(feature = "32_components")] Rg,
        #[cfg(feature = "32_components")] Rh,
        #[cfg(feature = "32_components")] Ri,
        #[cfg(feature = "32_components")] Rj,
        #[cfg(feature = "32_components")] Rk,
        #[cfg(feature = "32_components")] Rl,
        #[cfg(feature = "32_components")] Rm,
        #[cfg(feature = "32_components")] Rn,
        #[cfg(feature = "32_components")] Ro,
        #[cfg(feature = "32_components")] Rp,
    );
}

// Shape B (--cfg vw_shape_b): the same archetypes and component sets, but another declaration
// order, implicit ascending ids with one explicit jump, every column list in another order (the
// same component sits at different column positions in different archetypes) and a 9-column Aw.
#[cfg(vw_shape_b)]
ecs_world! {
    ecs_name!(VW);

    ecs_archetype!(Aw, Qp, Qi, Qh, Qg, Qf, Qe, Qd, Qc, Qa);

    #[archetype_id(7)]
    ecs_archetype!(Ar, Tw, Tal, Th, Tb);

    ecs_archetype!(Aq, Tz, Tb, Ta);

    ecs_archetype!(Ap, Ta);
}

/// A user type that converts into an archetype's Components struct through a user-written `From`
/// impl (legal: the struct is generated in the user's crate). The conversion can be told to panic.
pub struct Conv<C>(pub C);

pub const NARCH: usize = 4;
pub const ARCH_NAMES: [&str; NARCH] = ["Ap", "Aq", "Ar", "Aw"];
#[cfg(not(vw_shape_b))]
pub const ARCH_IDS: [u8; NARCH] = [3, 4, 255, 0];
#[cfg(vw_shape_b)]
pub const ARCH_IDS: [u8; NARCH] = [9, 8, 7, 0];

pub type Tok = (u32, u32); // raw (key, generation) of an entity handle
pub type DTok = (u32, u32); // (key, archetype version) of a direct handle

pub fn tok<E: Into<EntityAny>>(e: E) -> Tok {
    e.into().raw()
}

/// Direct handles have no public raw accessor: the guarded hook `verif_raw` reads (key, version).
pub fn dtok<D: Into<EntityDirectAny>>(d: D) -> DTok {
    let d: EntityDirectAny = d.into();
    d.verif_raw()
}

pub fn arch_of_id(id: u8) -> Option<usize> {
    ARCH_IDS.iter().position(|x| *x == id)
}

pub type Row = (Tok, Vec<Val>);

/// Everything the harness does per archetype, generated once per archetype below.
pub trait AOps: Archetype + Sized {
    const IDX: usize;
    const NAME: &'static str;
    fn cols() -> Vec<&'static str>;
    fn arch(w: &VW) -> &Self;
    fn arch_mut(w: &mut VW) -> &mut Self;
    fn make(p: &[i64]) -> Self::Components;
    fn comps_vals(c: &Self::Components) -> Vec<Val>;
    fn h_create(w: &mut VW, data: Self::Components, via: u8) -> Tok;
    fn h_create_within(w: &mut VW, data: Self::Components, via: u8) -> Result<Tok, Self::Components>;
    fn ncols() -> usize { Self::cols().len() }
    fn with_cap(n: usize) -> Self { <Self as Archetype>::with_capacity(n) }
    #[cfg(feature = "events")]
    fn ev(w: &VW) -> (Vec<Tok>, Vec<Tok>);
    #[cfg(feature = "events")]
    fn clear_ev(w: &mut VW);
    fn snapshot(w: &mut VW, path: u8) -> Vec<Row>;
    fn dump(w: &VW) -> gecs::verif::Dump;
    /// `dst.<arch>.clone_from(&src.<arch>)` (Clone::clone_from at archetype level)
    fn arch_clone_from(dst: &mut VW, src: &VW);
    fn preset(w: &mut VW, slot: u32, arch: u32);
    /// take a runtime-borrow guard on column `col` and leak it (`mem::forget`): the RefCell stays borrowed
    fn leak_guard(w: &VW, col: usize, mutable: bool);
}

/// Key-generic paths (typed or dynamic, entity or direct key).
pub trait AKey<K: EntityKey>: AOps {
    fn r_view_arch(w: &mut VW, k: K) -> Option<Row>;
    fn r_viewc_arch(w: &mut VW, k: K) -> Option<Row>;
    fn r_borrow_arch(w: &VW, k: K) -> Option<Row>;
    fn r_find(w: &mut VW, k: K) -> Option<Row>;
    fn r_findb(w: &VW, k: K) -> Option<Row>;
    fn r_slices(w: &mut VW, k: K, variant: u8) -> Option<Row>;
    fn a_contains(w: &VW, k: K) -> bool;
    fn a_resolve(w: &VW, k: K) -> Option<Result<Tok, usize>>;
    fn a_to_direct(w: &VW, k: K) -> Option<EntityDirectAny>;
    fn write(w: &mut VW, k: K, path: u8, col: usize, p: i64) -> bool;
    fn destroy_arch(w: &mut VW, k: K) -> Option<Vec<Val>>;
}

macro_rules! akey {
    ($A:ident, $f:ident, $K:ty, [$($T:ident $c:ident),*]) => {
        impl AKey<$K> for $A {
            fn r_view_arch(w: &mut VW, k: $K) -> Option<Row> {
                let r = w.$f.view(k).map(|v| (v.index(), tok(*v.entity), vec![$(rd(&*v.$c)),*]));
                r.map(|(i, t, vals)| {
                    if w.$f.entities().get(i).map(|e| tok(*e)) != Some(t) {
                        reg::with(|r| r.anomalies.push(format!("view_index_mismatch:{}:{}", stringify!($A), i)));
                    }
                    (t, vals)
                })
            }
            fn r_viewc_arch(w: &mut VW, k: $K) -> Option<Row> {
                w.archetype_mut::<$A>().view(k).map(|v| (tok(*v.entity), vec![$(rd(v.component::<$T>())),*]))
            }
            fn r_borrow_arch(w: &VW, k: $K) -> Option<Row> {
                w.$f.borrow(k).map(|b| {
                    if w.$f.entities().get(b.index()).map(|e| tok(*e)) != Some(tok(*b.entity())) {
                        reg::with(|r| r.anomalies.push(format!("borrow_index_mismatch:{}:{}", stringify!($A), b.index())));
                    }
                    (tok(*b.entity()), vec![$(rd(&*b.component::<$T>())),*])
                })
            }
            fn r_find(w: &mut VW, k: $K) -> Option<Row> {
                ecs_find!(w, k, |e: &Entity<$A>, $($c: &$T),*| -> Row { (tok(*e), vec![$(rd($c)),*]) })
            }
            fn r_findb(w: &VW, k: $K) -> Option<Row> {
                ecs_find_borrow!(w, k, |e: &Entity<$A>, $($c: &$T),*| -> Row { (tok(*e), vec![$(rd($c)),*]) })
            }
            fn r_slices(w: &mut VW, k: $K, variant: u8) -> Option<Row> {
                let i = w.$f.resolve(k)?;
                if i >= w.$f.len() {
                    reg::with(|r| r.anomalies.push(format!("resolve_oob:{}:{}", stringify!($A), i)));
                    return None;
                }
                let t = tok(w.$f.entities()[i]);
                Some(match variant % 3 {
                    0 => (t, vec![$(rd(&w.$f.get_slice::<$T>()[i])),*]),
                    1 => (t, vec![$(rd(&w.$f.borrow_slice::<$T>()[i])),*]),
                    _ => { let s = w.$f.get_all_slices_mut(); (tok(s.entity[i]), vec![$(rd(&s.$c[i])),*]) }
                })
            }
            fn a_contains(w: &VW, k: $K) -> bool { w.$f.contains(k) }
            fn a_resolve(w: &VW, k: $K) -> Option<Result<Tok, usize>> {
                w.$f.resolve(k).map(|i| match w.$f.entities().get(i) { Some(e) => Ok(tok(*e)), None => Err(i) })
            }
            fn a_to_direct(w: &VW, k: $K) -> Option<EntityDirectAny> { w.$f.to_direct(k).map(|d| d.into_any()) }
            #[allow(unused_assignments, unused_variables)]
            fn write(w: &mut VW, k: $K, path: u8, col: usize, p: i64) -> bool {
                let mut ci = 0usize;
                $(
                    if ci == col {
                        return match path % 8 {
                            0 => w.$f.view(k).map(|v| v.$c.set(p)).is_some(),
                            1 => w.$f.view(k).map(|mut v| v.component_mut::<$T>().set(p)).is_some(),
                            2 => w.$f.borrow(k).map(|b| b.component_mut::<$T>().set(p)).is_some(),
                            3 => ecs_find!(w, k, |_e: &Entity<$A>, x: &mut $T| { x.set(p); }).is_some(),
                            4 => ecs_find_borrow!(w, k, |_e: &Entity<$A>, x: &mut $T| { x.set(p); }).is_some(),
                            5 => match w.$f.resolve(k) { Some(i) => { w.$f.get_slice_mut::<$T>()[i].set(p); true } None => false },
                            6 => match w.$f.resolve(k) { Some(i) => { w.$f.borrow_slice_mut::<$T>()[i].set(p); true } None => false },
                            _ => match w.$f.resolve(k) { Some(i) => { w.$f.get_all_slices_mut().$c[i].set(p); true } None => false },
                        };
                    }
                    ci += 1;
                )*
                panic!("harness: no such column");
            }
            fn destroy_arch(w: &mut VW, k: $K) -> Option<Vec<Val>> {
                w.$f.destroy(k).map(|mut c| {
                    let v = Self::comps_vals(&c);
                    // Components::get_mut reaches the same fields
                    let via_mut: Vec<Val> = vec![$(rd(&*c.get_mut::<$T>())),*];
                    if via_mut != v { reg::with(|r| r.anomalies.push(format!("components_get_mut_mismatch:{}", stringify!($A)))); }
                    v
                })
            }
        }
    };
}

/// World-level view/borrow exist for typed keys only.
pub trait ATyped<K: EntityKey>: AOps {
    fn r_view_world(w: &mut VW, k: K) -> Option<Row>;
    fn r_borrow_world(w: &VW, k: K) -> Option<Row>;
    fn w_contains(w: &VW, k: K) -> bool;
    fn w_to_direct(w: &VW, k: K) -> Option<EntityDirectAny>;
    fn w_destroy(w: &mut VW, k: K) -> Option<Vec<Val>>;
}

macro_rules! atyped {
    ($A:ident, $f:ident, $K:ty, [$($T:ident $c:ident),*]) => {
        impl ATyped<$K> for $A {
            fn r_view_world(w: &mut VW, k: $K) -> Option<Row> {
                w.view::<$A, _>(k).map(|v| (tok(*v.entity), vec![$(rd(&*v.$c)),*]))
            }
            fn r_borrow_world(w: &VW, k: $K) -> Option<Row> {
                w.borrow::<$A, _>(k).map(|b| (tok(*b.entity()), vec![$(rd(&*b.component::<$T>())),*]))
            }
            fn w_contains(w: &VW, k: $K) -> bool { w.contains(k) }
            fn w_to_direct(w: &VW, k: $K) -> Option<EntityDirectAny> { w.to_direct(k).map(|d| d.into_any()) }
            fn w_destroy(w: &mut VW, k: $K) -> Option<Vec<Val>> { w.destroy(k).map(|c| Self::comps_vals(&c)) }
        }
    };
}

macro_rules! aops {
    ($A:ident, $AC:ident, $idx:expr, $f:ident, [$($T:ident $c:ident),*]) => {
        impl AOps for $A {
            const IDX: usize = $idx;
            const NAME: &'static str = stringify!($A);
            fn cols() -> Vec<&'static str> { vec![$(<$T as Comp>::NAME),*] }
            fn arch(w: &VW) -> &Self { &w.$f }
            fn arch_mut(w: &mut VW) -> &mut Self { &mut w.$f }
            fn make(p: &[i64]) -> Self::Components {
                let mut it = p.iter().copied();
                $AC { $($c: <$T as Comp>::new(it.next().unwrap_or(0)),)* }
            }
            fn comps_vals(c: &Self::Components) -> Vec<Val> {
                let by_field: Vec<Val> = vec![$(rd(&c.$c)),*];
                let by_get: Vec<Val> = vec![$(rd(c.get::<$T>())),*];
                if by_field != by_get {
                    reg::with(|r| r.anomalies.push(format!("components_get_mismatch:{}", stringify!($A))));
                }
                by_field
            }
            fn h_create(w: &mut VW, data: Self::Components, via: u8) -> Tok {
                match via % 7 {
                    0 => tok(w.create::<$A>(data)),
                    1 => tok(w.archetype_mut::<$A>().create(data)),
                    2 => tok(w.$f.create(data.into_tuple())),
                    3 => tok(w.create::<$A>(data.into_tuple())),
                    4 => tok(w.$f.create(Conv(data))),
                    5 => tok(w.archetype_mut::<$A>().create(Conv(data))),
                    _ => tok(w.create::<$A>(Conv(data))),
                }
            }
            fn h_create_within(w: &mut VW, data: Self::Components, via: u8) -> Result<Tok, Self::Components> {
                let r = match via % 5 {
                    0 => w.create_within_capacity::<$A>(data),
                    1 => w.archetype_mut::<$A>().create_within_capacity(data),
                    2 => w.$f.create_within_capacity(data.into_tuple()),
                    3 => w.$f.create_within_capacity(Conv(data)),
                    _ => w.create_within_capacity::<$A>(Conv(data)),
                };
                r.map(tok)
            }
            #[allow(unused_mut)]
            fn snapshot(w: &mut VW, path: u8) -> Vec<Row> {
                let mut out: Vec<Row> = Vec::new();
                match path % 16 {
                    // the documented spellings nothing else uses: the world given as an EXPRESSION, bare `_`
                    // parameter names, a closure without parameters (matches every archetype), and the
                    // `World::archetype::<A>()` accessor with `ArchetypeHas<C>` as a generic bound
                    15 => {
                        let mut toks: Vec<Tok> = Vec::new();
                        ecs_iter!((&mut *w), |e: &Entity<$A>, $(_: &$T),*| { toks.push(tok(*e)); });
                        let mut n0 = 0usize;
                        ecs_iter_borrow!((&*w), || { n0 += 1; });
                        let mut n1 = 0usize;
                        ecs_iter!((&mut *w), || { n1 += 1; });
                        let total = w.ap.len() + w.aq.len() + w.ar.len() + w.aw.len();
                        if n0 != total || n1 != total {
                            reg::with(|r| r.anomalies.push(format!("zero_param_count:{}:{}:{}", n0, n1, total)));
                        }
                        fn col<A: Archetype + ArchetypeHas<C>, C>(a: &mut A) -> &[C] { a.get_slice::<C>() }
                        fn bcol<A: Archetype + ArchetypeHas<C>, C>(a: &A) -> std::cell::Ref<'_, [C]> { a.borrow_slice::<C>() }
                        let ents: Vec<Entity<$A>> = w.archetype::<$A>().entities().to_vec();
                        for (i, e) in ents.iter().enumerate() {
                            let row = vec![$(rd(&col::<$A, $T>(w.archetype_mut::<$A>())[i])),*];
                            let brow = vec![$(rd(&bcol::<$A, $T>(w.archetype::<$A>())[i])),*];
                            if row != brow {
                                reg::with(|r| r.anomalies.push(format!("underscore_iter:{}:rows", stringify!($A))));
                            }
                            out.push((tok(*e), row));
                        }
                        let mut a = toks.clone();
                        let mut b: Vec<Tok> = ents.iter().map(|e| tok(*e)).collect();
                        a.sort();
                        b.sort();
                        if a != b {
                            reg::with(|r| r.anomalies.push(format!("underscore_iter:{}:{}:{}", stringify!($A), a.len(), b.len())));
                        }
                    }
                    // closures that leave by an early `return;` ("skip this entity"): the first pass skips
                    // every second visit, the second pass (runtime-borrowing macro) the others
                    14 => {
                        let mut k = 0usize;
                        ecs_iter!(w, |e: &Entity<$A>, $($c: &$T),*| {
                            k += 1;
                            if k % 2 == 0 { return; }
                            out.push((tok(*e), vec![$(rd($c)),*]));
                        });
                        let mut k2 = 0usize;
                        ecs_iter_borrow!(w, |e: &Entity<$A>, $($c: &$T),*| {
                            k2 += 1;
                            if k2 % 2 == 1 { return; }
                            out.push((tok(*e), vec![$(rd($c)),*]));
                        });
                        if k != k2 || k != w.$f.len() {
                            reg::with(|r| r.anomalies.push(format!("iter_count:{}:{}:{}", stringify!($A), k, k2)));
                        }
                    }
                    // positional adaptors (nth / skip / step_by / last / count / size_hint), on iter() and
                    // iter_mut(): even positions from one pass, odd positions from another
                    13 => {
                        // the reference is the iterator's OWN next()-sequence (no order is promised
                        // relative to entities() or between iter() and iter_mut())
                        let n = w.$f.len();
                        let mut s_iter: Vec<Tok> = Vec::new();
                        for x in w.$f.iter() { s_iter.push(tok(*x.0)); }
                        let mut s_mut: Vec<Tok> = Vec::new();
                        for x in w.$f.iter_mut() { s_mut.push(tok(*x.0)); }
                        let k = if n == 0 { 0 } else { (n / 2).min(3) };
                        if w.$f.iter().nth(k).map(|x| tok(*x.0)) != s_iter.get(k).copied() || w.$f.iter_mut().nth(k).map(|x| tok(*x.0)) != s_mut.get(k).copied() {
                            reg::with(|r| r.anomalies.push(format!("iter_nth:{}:{}", stringify!($A), k)));
                        }
                        if w.$f.iter_mut().last().map(|x| tok(*x.0)) != s_mut.last().copied() || w.$f.iter().last().map(|x| tok(*x.0)) != s_iter.last().copied() {
                            reg::with(|r| r.anomalies.push(format!("iter_mut_last:{}", stringify!($A))));
                        }
                        {
                            let mut it = w.$f.iter_mut();
                            let mut seen = 0usize;
                            if k > 0 { if it.nth(k - 1).is_some() { seen = k; } }
                            let (lo, hi) = it.size_hint();
                            let rest = it.count();
                            if seen + rest != n || lo > rest || hi.map_or(false, |h| h < rest) {
                                reg::with(|r| r.anomalies.push(format!("iter_mut_positional_count:{}:{}:{}:{}", stringify!($A), n, seen, rest)));
                            }
                        }
                        let mut even: Vec<Row> = Vec::new();
                        let mut odd: Vec<Row> = Vec::new();
                        for (e, $($c),*) in w.$f.iter_mut().step_by(2) { even.push((tok(*e), vec![$(rd(&*$c)),*])); }
                        for (e, $($c),*) in w.$f.iter_mut().skip(1).step_by(2) { odd.push((tok(*e), vec![$(rd(&*$c)),*])); }
                        let mut oi = odd.into_iter();
                        for r in even { out.push(r); if let Some(o) = oi.next() { out.push(o); } }
                        if out.iter().map(|r| r.0).collect::<Vec<_>>() != s_mut {
                            reg::with(|r| r.anomalies.push(format!("iter_skip_take_order:{}:mut", stringify!($A))));
                        }
                        let mut again: Vec<Tok> = Vec::new();
                        let half: Vec<Tok> = w.$f.iter().skip(n / 2).map(|x| tok(*x.0)).collect();
                        again.extend(w.$f.iter().take(n / 2).map(|x| tok(*x.0)));
                        again.extend(half);
                        if again != s_iter {
                            reg::with(|r| r.anomalies.push(format!("iter_skip_take_order:{}", stringify!($A))));
                        }
                    }
                    // partially consumed iterators finished by internal iteration (fold-based consumers)
                    11 => {
                        let mut it = w.$f.iter();
                        if let Some((e, $($c),*)) = it.next() { out.push((tok(*e), vec![$(rd($c)),*])); }
                        it.for_each(|(e, $($c),*)| out.push((tok(*e), vec![$(rd($c)),*])));
                    }
                    12 => {
                        let n = w.$f.iter_mut().count();
                        if n != w.$f.len() { reg::with(|r| r.anomalies.push(format!("iter_count:{}:{}", stringify!($A), n))); }
                        if let Some((e, $($c),*)) = w.$f.iter().next() { out.push((tok(*e), vec![$(rd($c)),*])); }
                        let mut it = w.$f.iter_mut().peekable();
                        let _ = it.peek().is_some();
                        it.skip(1).fold((), |_, (e, $($c),*)| out.push((tok(*e), vec![$(rd(&*$c)),*])));
                        let last = w.$f.iter().last().map(|x| tok(*x.0));
                        let mut own_last: Option<Tok> = None;
                        for x in w.$f.iter() { own_last = Some(tok(*x.0)); }
                        if last != own_last { reg::with(|r| r.anomalies.push(format!("iter_last:{}", stringify!($A)))); }
                    }
                    9 => { ecs_iter_destroy!(w, |e: &Entity<$A>, $($c: &$T),*| { out.push((tok(*e), vec![$(rd($c)),*])); EcsStep::Continue }); out.reverse(); }
                    10 => { ecs_iter_destroy!(w, |e: &Entity<$A>, $($c: &$T),*| { out.push((tok(*e), vec![$(rd($c)),*])); }); out.reverse(); }
                    0 => { ecs_iter!(w, |e: &Entity<$A>, $($c: &$T),*| { out.push((tok(*e), vec![$(rd($c)),*])); }); }
                    1 => { ecs_iter_borrow!(w, |e: &Entity<$A>, $($c: &$T),*| { out.push((tok(*e), vec![$(rd($c)),*])); }); }
                    2 => { for (e, $($c),*) in w.$f.iter() { out.push((tok(*e), vec![$(rd($c)),*])); } }
                    3 => { for (e, $($c),*) in w.$f.iter_mut() { out.push((tok(*e), vec![$(rd(&*$c)),*])); } }
                    4 => {
                        let ents: Vec<Tok> = w.$f.entities().iter().map(|e| tok(*e)).collect();
                        let mut rows: Vec<Vec<Val>> = ents.iter().map(|_| Vec::new()).collect();
                        $( { let s = w.$f.get_slice::<$T>();
                             if s.len() != ents.len() { reg::with(|r| r.anomalies.push(format!("slice_len:{}:{}", stringify!($T), s.len()))); }
                             for (i, x) in s.iter().enumerate() { if i < rows.len() { rows[i].push(rd(x)); } } } )*
                        out = ents.into_iter().zip(rows).collect();
                    }
                    5 => {
                        let ents: Vec<Tok> = w.$f.entities().iter().map(|e| tok(*e)).collect();
                        let mut rows: Vec<Vec<Val>> = ents.iter().map(|_| Vec::new()).collect();
                        $( { let s = w.$f.borrow_slice::<$T>();
                             if s.len() != ents.len() { reg::with(|r| r.anomalies.push(format!("bslice_len:{}:{}", stringify!($T), s.len()))); }
                             for (i, x) in s.iter().enumerate() { if i < rows.len() { rows[i].push(rd(x)); } } } )*
                        out = ents.into_iter().zip(rows).collect();
                    }
                    6 => {
                        let s = w.$f.get_all_slices_mut();
                        for i in 0..s.entity.len() { out.push((tok(s.entity[i]), vec![$(rd(&s.$c[i])),*])); }
                    }
                    7 => {
                        let ents: Vec<Entity<$A>> = w.$f.entities().to_vec();
                        for e in ents {
                            match w.view(e) {
                                Some(v) => out.push((tok(*v.entity), vec![$(rd(&*v.$c)),*])),
                                None => reg::with(|r| r.anomalies.push(format!("listed_entity_not_viewable:{:?}", tok(e)))),
                            }
                        }
                    }
                    _ => {
                        let ents: Vec<Entity<$A>> = w.$f.entities().to_vec();
                        for e in ents {
                            match w.borrow(e) {
                                Some(b) => out.push((tok(*b.entity()), vec![$(rd(&*b.component::<$T>())),*])),
                                None => reg::with(|r| r.anomalies.push(format!("listed_entity_not_borrowable:{:?}", tok(e)))),
                            }
                        }
                    }
                }
                out
            }
            fn dump(w: &VW) -> gecs::verif::Dump { w.$f.data.verif_dump() }
            fn arch_clone_from(dst: &mut VW, src: &VW) { dst.$f.clone_from(&src.$f) }
            #[cfg(feature = "events")]
            fn ev(w: &VW) -> (Vec<Tok>, Vec<Tok>) {
                (w.$f.iter_created().map(|e| tok(*e)).collect(), w.$f.iter_destroyed().map(|e| tok(*e)).collect())
            }
            #[cfg(feature = "events")]
            fn clear_ev(w: &mut VW) { w.$f.clear_events() }
            fn preset(w: &mut VW, slot: u32, arch: u32) { w.$f.data.verif_preset_versions(slot, arch) }
            #[allow(unused_assignments)]
            fn leak_guard(w: &VW, col: usize, mutable: bool) {
                let mut i = 0usize;
                $(
                    if i == col {
                        if mutable { std::mem::forget(w.$f.borrow_slice_mut::<$T>()); } else { std::mem::forget(w.$f.borrow_slice::<$T>()); }
                    }
                    i += 1;
                )*
            }
        }

        impl From<Conv<$AC>> for $AC {
            fn from(c: Conv<$AC>) -> Self {
                if reg::take_conv_fault() { panic!("injected conversion fault"); }
                c.0
            }
        }

        atyped!($A, $f, Entity<$A>, [$($T $c),*]);
        atyped!($A, $f, EntityDirect<$A>, [$($T $c),*]);
        akey!($A, $f, Entity<$A>, [$($T $c),*]);
        akey!($A, $f, EntityAny, [$($T $c),*]);
        akey!($A, $f, EntityDirect<$A>, [$($T $c),*]);
        akey!($A, $f, EntityDirectAny, [$($T $c),*]);
    };
}

aops!(Ap, ApComponents, 0, ap, [Ta ta]);
#[cfg(not(vw_shape_b))]
aops!(Aq, AqComponents, 1, aq, [Ta ta, Tb tb, Tz tz]);
#[cfg(not(vw_shape_b))]
aops!(Ar, ArComponents, 2, ar, [Tb tb, Th th, Tal tal, Tw tw]);
#[cfg(vw_shape_b)]
aops!(Aq, AqComponents, 1, aq, [Tz tz, Tb tb, Ta ta]);
#[cfg(vw_shape_b)]
aops!(Ar, ArComponents, 2, ar, [Tw tw, Tal tal, Th th, Tb tb]);
#[cfg(vw_shape_b)]
aops!(Aw, AwComponents, 3, aw, [Qp qp, Qi qi, Qh qh, Qg qg, Qf qf, Qe qe, Qd qd, Qc qc, Qa qa]);
#[cfg(all(not(vw_shape_b), not(feature = "32_components")))]
aops!(Aw, AwComponents, 3, aw, [Qa qa, Qb qb, Qc qc, Qd qd, Qe qe, Qf qf, Qg qg, Qh qh, Qi qi, Qj qj, Qk qk, Ql ql, Qm qm, Qn qn, Qo qo, Qp qp]);
#[cfg(all(not(vw_shape_b), feature = "32_components"))]
aops!(Aw, AwComponents, 3, aw, [Qa qa, Qb qb, Qc qc, Qd qd, Qe qe, Qf qf, Qg qg, Qh qh, Qi qi, Qj qj, Qk qk, Ql ql, Qm qm, Qn qn, Qo qo, Qp qp,
                  Ra ra, Rb rb, Rc rc, Rd rd, Re re, Rf rf, Rg rg, Rh rh, Ri ri, Rj rj, Rk rk, Rl rl, Rm rm, Rn rn, Ro ro, Rp rp]);

/// Run `$body` with `$A` bound to the archetype type of index `$i`.
#[macro_export]
macro_rules! with_arch {
    ($i:expr, $A:ident => $body:expr) => {
        match $i {
            0 => { type $A = $crate::world::Ap; $body }
            1 => { type $A = $crate::world::Aq; $body }
            2 => { type $A = $crate::world::Ar; $body }
            3 => { type $A = $crate::world::Aw; $body }
            _ => panic!("harness: bad archetype index"),
        }
    };
}
