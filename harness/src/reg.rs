//! Registry of instrumented component values: identity, Drop/Clone accounting, fault injection.
use std::cell::RefCell;
use std::collections::HashMap;

#[derive(Default)]
pub struct Reg {
    pub next_id: u64,
    pub state: HashMap<u64, u8>, // 1 = live, 2 = dropped
    pub drops: Vec<u64>,
    pub clones: Vec<(u64, u64)>,
    pub anomalies: Vec<String>,
    pub z_live: i64,
    pub z_drops: i64,
    pub z_clones: i64,
    pub nd_clones: i64,
    pub conv_fault: bool,
    pub shape: u32,
    pub plain_step: bool,
    pub clone_fault: Option<u32>,
    pub drop_fault: Option<u32>,
    pub closure_fault: Option<u32>,
}

thread_local! {
    /// One-shot hook run from inside `Clone::clone` of the named component type (clone as an OUTER
    /// access of a borrow nesting): (type name, callback).
    pub static CLONE_HOOK: RefCell<Option<(&'static str, Box<dyn FnMut()>)>> = RefCell::new(None);
    pub static REG: RefCell<Reg> = RefCell::new(Reg { next_id: 1, ..Default::default() });
}

pub fn with<R>(f: impl FnOnce(&mut Reg) -> R) -> R {
    REG.with(|r| f(&mut r.borrow_mut()))
}

pub fn born() -> u64 {
    with(|r| {
        let id = r.next_id;
        r.next_id += 1;
        r.state.insert(id, 1);
        id
    })
}

/// A user conversion `impl From<Conv<Components>> for Components` asks whether it has to panic.
pub fn take_conv_fault() -> bool {
    with(|r| std::mem::replace(&mut r.conv_fault, false))
}

/// Called first thing in `Clone::clone` of the instrumented types: runs the pending one-shot hook.
pub fn clone_hook(name: &'static str) {
    let hook = CLONE_HOOK.with(|h| {
        let mut h = h.borrow_mut();
        if h.as_ref().map_or(false, |(n, _)| *n == name) { h.take() } else { None }
    });
    if let Some((_, mut f)) = hook {
        f();
    }
}

/// Clone::clone of a component without identity (no drop glue): counted, and a fault point like any other.
pub fn nd_cloned() {
    let fire = with(|r| match r.clone_fault {
        Some(0) => {
            r.clone_fault = None;
            true
        }
        Some(k) => {
            r.clone_fault = Some(k - 1);
            false
        }
        None => false,
    });
    if fire && !std::thread::panicking() {
        panic!("injected clone fault");
    }
    with(|r| r.nd_clones += 1);
}

/// Called from Clone::clone. May panic (injected fault) before creating the clone.
pub fn cloned(from: u64) -> u64 {
    let fire = with(|r| {
        if r.state.get(&from) != Some(&1) {
            r.anomalies.push(format!("clone_of_non_live:{}", from));
        }
        match r.clone_fault {
            Some(0) => {
                r.clone_fault = None;
                true
            }
            Some(k) => {
                r.clone_fault = Some(k - 1);
                false
            }
            None => false,
        }
    });
    if fire && !std::thread::panicking() {
        panic!("injected clone fault");
    }
    with(|r| {
        let id = r.next_id;
        r.next_id += 1;
        r.state.insert(id, 1);
        r.clones.push((from, id));
        id
    })
}

/// Called from Drop::drop. The value counts as dropped even if the injected fault fires.
pub fn dropped(id: u64) {
    let fire = with(|r| {
        match r.state.get(&id).copied() {
            Some(1) => {
                r.state.insert(id, 2);
            }
            Some(_) => r.anomalies.push(format!("double_drop:{}", id)),
            None => r.anomalies.push(format!("drop_of_unknown:{}", id)),
        }
        r.drops.push(id);
        match r.drop_fault {
            Some(0) => {
                r.drop_fault = None;
                true
            }
            Some(k) => {
                r.drop_fault = Some(k - 1);
                false
            }
            None => false,
        }
    });
    if fire && !std::thread::panicking() {
        panic!("injected drop fault");
    }
}

pub fn check_live(id: u64) {
    with(|r| {
        if r.state.get(&id) != Some(&1) {
            r.anomalies.push(format!("read_of_non_live:{}", id));
        }
    })
}

/// Closure fault countdown: returns true when the closure must panic now.
pub fn closure_tick() -> bool {
    with(|r| match r.closure_fault {
        Some(0) => {
            r.closure_fault = None;
            true
        }
        Some(k) => {
            r.closure_fault = Some(k - 1);
            false
        }
        None => false,
    })
}

pub fn take_drops() -> Vec<u64> {
    with(|r| std::mem::take(&mut r.drops))
}
pub fn take_clones() -> Vec<(u64, u64)> {
    with(|r| std::mem::take(&mut r.clones))
}
pub fn take_anomalies() -> Vec<String> {
    with(|r| std::mem::take(&mut r.anomalies))
}
pub fn live_ids() -> Vec<u64> {
    with(|r| {
        let mut v: Vec<u64> = r.state.iter().filter(|(_, s)| **s == 1).map(|(k, _)| *k).collect();
        v.sort();
        v
    })
}
pub fn forget_all() {
    with(|r| {
        r.state.clear();
        r.drops.clear();
        r.clones.clear();
        r.anomalies.clear();
        r.clone_fault = None;
        r.drop_fault = None;
        r.closure_fault = None;
    })
}
pub fn clear_faults() {
    with(|r| {
        r.clone_fault = None;
        r.drop_fault = None;
        r.closure_fault = None;
    })
}

/// Run `f` without leaving a trace in the accounting (scratch worlds used to forge handles).
pub fn scoped<R>(f: impl FnOnce() -> R) -> R {
    let (nd, nc, zl, zd, zc, ndc) = with(|r| (r.drops.len(), r.clones.len(), r.z_live, r.z_drops, r.z_clones, r.nd_clones));
    let out = f();
    with(|r| {
        r.drops.truncate(nd);
        r.clones.truncate(nc);
        r.z_live = zl;
        r.z_drops = zd;
        r.z_clones = zc;
        r.nd_clones = ndc;
    });
    out
}
