//! Minimal JSON value + writer (no external crates; TLC's Json module reads the output).
#[derive(Clone, Debug, PartialEq)]
pub enum J {
    B(bool),
    I(i64),
    S(String),
    A(Vec<J>),
    O(Vec<(&'static str, J)>),
}

impl J {
    pub fn s(x: &str) -> J {
        J::S(x.to_string())
    }
    pub fn write(&self, out: &mut String) {
        match self {
            J::B(b) => out.push_str(if *b { "true" } else { "false" }),
            J::I(i) => out.push_str(&i.to_string()),
            J::S(s) => {
                out.push('"');
                for c in s.chars() {
                    match c {
                        '"' => out.push_str("\\\""),
                        '\\' => out.push_str("\\\\"),
                        '\n' => out.push_str("\\n"),
                        c if (c as u32) < 0x20 => out.push(' '),
                        c => out.push(c),
                    }
                }
                out.push('"');
            }
            J::A(v) => {
                out.push('[');
                for (i, x) in v.iter().enumerate() {
                    if i > 0 {
                        out.push(',');
                    }
                    x.write(out);
                }
                out.push(']');
            }
            J::O(v) => {
                out.push('{');
                for (i, (k, x)) in v.iter().enumerate() {
                    if i > 0 {
                        out.push(',');
                    }
                    out.push('"');
                    out.push_str(k);
                    out.push_str("\":");
                    x.write(out);
                }
                out.push('}');
            }
        }
    }
    pub fn to_line(&self) -> String {
        let mut s = String::new();
        self.write(&mut s);
        s
    }
}

pub fn ji<T: TryInto<i64>>(x: T) -> J {
    J::I(x.try_into().ok().expect("int out of range"))
}
