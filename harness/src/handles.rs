//! C14: runs handle values through every conversion of the real crate.
//! Input lines: "pos id gen_hi gen_lo"; output: one JSON line per input with what was observed.
#![allow(clippy::all)]
use crate::comps::*;
use crate::h::guard;
use crate::json::*;
use crate::world::*;
use gecs::prelude::*;
use gecs::error::EcsError;
use std::collections::hash_map::DefaultHasher;
use std::collections::{HashMap, HashSet};
use std::hash::{Hash, Hasher};
use std::io::{BufRead, Write};

fn hash_of<T: Hash>(t: &T) -> u64 {
    let mut h = DefaultHasher::new();
    t.hash(&mut h);
    h.finish()
}

/// `From<Entity<A>>` / `From<&Entity<A>>` for the Select* enums pick A's variant and keep the handle.
pub trait SelOk: Archetype + Sized {
    fn select_ok(e: Entity<Self>) -> bool;
    fn select_direct_ok(d: EntityDirect<Self>) -> bool;
}
macro_rules! sel_ok {
    ($A:ident) => {
        impl SelOk for $A {
            fn select_ok(e: Entity<$A>) -> bool {
                let a = matches!(SelectEntity::from(e), SelectEntity::$A(x) if x == e);
                let b = matches!(SelectEntity::from(&e), SelectEntity::$A(x) if x == e);
                let c = matches!(SelectArchetype::from(e), SelectArchetype::$A) && SelectArchetype::from(e).archetype_id() == <$A as Archetype>::ARCHETYPE_ID;
                // Copy and Clone of the Select enums keep variant and handle
                let s = SelectEntity::from(e);
                let (s2, s3) = (s, s.clone());
                let sa = SelectArchetype::from(e);
                let (sa2, sa3) = (sa, sa.clone());
                let d = matches!(s2, SelectEntity::$A(x) if x == e) && matches!(s3, SelectEntity::$A(x) if x == e)
                    && matches!(sa2, SelectArchetype::$A) && matches!(sa3, SelectArchetype::$A);
                a && b && c && d
            }
            fn select_direct_ok(d: EntityDirect<$A>) -> bool {
                let a = matches!(SelectEntityDirect::from(d), SelectEntityDirect::$A(x) if x == d);
                let b = matches!(SelectEntityDirect::from(&d), SelectEntityDirect::$A(x) if x == d);
                let c = matches!(SelectArchetype::from(d), SelectArchetype::$A) && SelectArchetype::from(d).archetype_id() == <$A as Archetype>::ARCHETYPE_ID;
                let s = SelectEntityDirect::from(d);
                let (s2, s3) = (s, s.clone());
                let e = matches!(s2, SelectEntityDirect::$A(x) if x == d) && matches!(s3, SelectEntityDirect::$A(x) if x == d);
                a && b && c && e
            }
        }
    };
}
sel_ok!(Ap);
sel_ok!(Aq);
sel_ok!(Ar);
sel_ok!(Aw);

/// A second world type whose archetype ids (9, 254) are not declared in VW.
mod xw {
    use gecs::prelude::*;
    pub struct Xb(pub u8);
    ecs_world! {
        ecs_name!(XW);
        #[archetype_id(9)]
        ecs_archetype!(X9, Xb);
        #[archetype_id(254)]
        ecs_archetype!(X254, Xb);
    }
}

fn typed_checks<A: AOps + SelOk>(any: EntityAny) -> (bool, bool, bool, bool)
where
    Entity<A>: TryFrom<EntityAny>,
{
    // (try_from ok, from_any panics, typed->any round trip exact, typed archetype_id == A::ARCHETYPE_ID)
    let t = Entity::<A>::try_from(any);
    let ok = t.is_ok();
    let panics = guard(|| Entity::<A>::from_any(any)).is_err();
    let mut rt = true;
    let mut aid = true;
    if let Ok(e) = t {
        let back: EntityAny = e.into();
        let back2 = e.into_any();
        let r: &EntityAny = (&e).into();
        rt = back == any && back2 == any && *r == any && back.raw() == any.raw() && hash_of(&e) == hash_of(&any);
        // the identity conversion of the dynamic handle, the &mut view, Clone, and the formatting
        // impls (equal handles format equally; nothing panics)
        let mut e2 = e;
        let rm: &mut EntityAny = (&mut e2).into();
        let via_mut = *rm;
        #[allow(clippy::clone_on_copy)]
        let cl = e.clone();
        rt = rt && any.into_any() == any && via_mut == any && cl == e && hash_of(&cl) == hash_of(&e)
            && format!("{:?}", e) == format!("{:?}", cl) && format!("{}", e) == format!("{}", cl)
            && format!("{:?}", any) == format!("{:?}", back) && format!("{}", any) == format!("{}", back)
            && !format!("{:?}", e).is_empty() && !format!("{}", any).is_empty();
        // with the matching archetype the unchecked conversion is the checked one (debug and release)
        aid = e.archetype_id() == A::ARCHETYPE_ID && Entity::<A>::from_any(any) == e && A::select_ok(e)
            && Entity::<A>::from_any_unchecked(any) == e;
    }
    (ok, panics, rt, aid)
}

pub fn run(input: &str, out: &mut dyn Write) -> u64 {
    let f = std::io::BufReader::new(std::fs::File::open(input).expect("open handle table"));
    let mut n = 0;
    let mut seen: HashSet<EntityAny> = HashSet::new();
    let mut map: HashMap<EntityAny, (u32, u32)> = HashMap::new();
    for line in f.lines() {
        let line = line.unwrap();
        let v: Vec<u64> = line.split_whitespace().map(|x| x.parse().unwrap()).collect();
        if v.len() != 4 { continue; }
        let key = ((v[0] as u32) << 8) | v[1] as u32;
        let gen = ((v[2] as u32) << 16) | v[3] as u32;
        let fr = EntityAny::from_raw((key, gen));
        let mut o = vec![("i", ji(n)), ("from_raw", J::B(fr.is_ok()))];
        if let Err(e) = &fr {
            o.push(("errors_ok", J::B(*e == EcsError::InvalidRawEntity)));
        }
        if let Ok(any) = fr {
            let raw_rt = any.raw() == (key, gen) && EntityAny::from_raw(any.raw()).unwrap() == any;
            o.push(("raw_rt", J::B(raw_rt)));
            o.push(("aid", ji(any.archetype_id())));
            let t = [typed_checks::<Ap>(any), typed_checks::<Aq>(any), typed_checks::<Ar>(any), typed_checks::<Aw>(any)];
            o.push(("try", J::A(t.iter().map(|x| J::B(x.0)).collect())));
            o.push(("from_any_panics", J::A(t.iter().map(|x| J::B(x.1)).collect())));
            o.push(("typed_rt", J::B(t.iter().all(|x| x.2))));
            o.push(("typed_aid", J::B(t.iter().all(|x| x.3))));
            let sa = SelectArchetype::try_from(any);
            o.push(("sel_arch", J::B(sa.is_ok())));
            o.push(("sel_arch_id", ji(sa.map(|s| s.archetype_id() as i64).unwrap_or(-1))));
            let se = SelectEntity::try_from(any);
            let se_ok = se.is_ok();
            let se_faithful = match se {
                Ok(SelectEntity::Ap(e)) => e.into_any() == any && any.archetype_id() == Ap::ARCHETYPE_ID,
                Ok(SelectEntity::Aq(e)) => e.into_any() == any && any.archetype_id() == Aq::ARCHETYPE_ID,
                Ok(SelectEntity::Ar(e)) => e.into_any() == any && any.archetype_id() == Ar::ARCHETYPE_ID,
                Ok(SelectEntity::Aw(e)) => e.into_any() == any && any.archetype_id() == Aw::ARCHETYPE_ID,
                Err(_) => true,
            };
            o.push(("sel_ent", J::B(se_ok)));
            o.push(("sel_ent_faithful", J::B(se_faithful)));
            let sid = SelectArchetype::try_from(any.archetype_id());
            o.push(("sel_id", J::B(sid.is_ok())));
            // failing conversions must fail AS DOCUMENTED: a type mismatch is InvalidEntityType
            let mut errs_ok = true;
            macro_rules! err_is_type { ($r:expr) => { if let Err(e) = $r { if e != EcsError::InvalidEntityType { errs_ok = false; } } }; }
            err_is_type!(Entity::<Ap>::try_from(any));
            err_is_type!(Entity::<Aq>::try_from(any));
            err_is_type!(Entity::<Ar>::try_from(any));
            err_is_type!(Entity::<Aw>::try_from(any));
            err_is_type!(SelectEntity::try_from(any).map(|_| ()));
            err_is_type!(SelectArchetype::try_from(any).map(|_| ()));
            err_is_type!(SelectArchetype::try_from(any.archetype_id()).map(|_| ()));
            o.push(("errors_ok", J::B(errs_ok)));
            // Eq / Hash: equal to its copy, unequal to every one-field neighbour, HashSet/HashMap behave
            let copy = any;
            let nb_key = EntityAny::from_raw((key ^ 0x100, gen)).unwrap();
            let nb_id = EntityAny::from_raw((key ^ 0x1, gen)).unwrap();
            let nb_gen = EntityAny::from_raw((key, if gen == u32::MAX { gen - 1 } else { gen + 1 })).unwrap();
            // Eq is equality of the raw pair: a value differing in BOTH fields (by the same or by
            // different bit patterns) is a different handle, whatever the patterns are
            let mut two_field_ok = true;
            const MASKS: [u32; 9] = [0x1, 0x2, 0x80, 0x100, 0x101, 0x8000, 0x1_0000, 0x80_0000, 0x8000_0001];
            for m1 in MASKS {
                for m2 in MASKS {
                    if gen ^ m2 == 0 { continue; }
                    let other = EntityAny::from_raw((key ^ m1, gen ^ m2)).unwrap();
                    if other == any || any == other || !(other != any) || other.raw() == any.raw() {
                        two_field_ok = false;
                    }
                    // the typed handles delegate: same archetype id on both sides means both convert
                    if (m1 & 0xff) == 0 {
                        macro_rules! typed_ne { ($A:ident) => {
                            if let (Ok(a), Ok(b)) = (Entity::<$A>::try_from(any), Entity::<$A>::try_from(other)) {
                                if a == b { two_field_ok = false; }
                            }
                        }; }
                        typed_ne!(Ap); typed_ne!(Aq); typed_ne!(Ar); typed_ne!(Aw);
                    }
                }
            }
            let eqh = copy == any && hash_of(&copy) == hash_of(&any) && nb_key != any && nb_id != any && nb_gen != any && two_field_ok;
            let first = seen.insert(any);
            let again = !seen.insert(any);
            map.insert(any, (key, gen));
            let maps = map.get(&any) == Some(&(key, gen)) && seen.contains(&any)
                && (seen.contains(&nb_gen) == map.contains_key(&nb_gen));
            o.push(("eq_hash", J::B(eqh && again && maps)));
            o.push(("first", J::B(first)));
        }
        writeln!(out, "{}", J::O(o).to_line()).unwrap();
        n += 1;
    }
    // direct handles can only come out of a world
    let mut w = VW::new();
    let mut dres = Vec::new();
    macro_rules! direct_for {
        ($A:ident, $ai:expr) => {{
            let data = <$A as AOps>::make(&[1, 2, 3, 4]);
            let t = <$A as AOps>::h_create(&mut w, data, 0);
            let e = Entity::<$A>::try_from(EntityAny::from_raw(t).unwrap()).unwrap();
            let d = w.to_direct(e).unwrap();
            let da: EntityDirectAny = d.into();
            let tries = [EntityDirect::<Ap>::try_from(da).is_ok(), EntityDirect::<Aq>::try_from(da).is_ok(),
                         EntityDirect::<Ar>::try_from(da).is_ok(), EntityDirect::<Aw>::try_from(da).is_ok()];
            let panics = [guard(|| EntityDirect::<Ap>::from_any(da)).is_err(), guard(|| EntityDirect::<Aq>::from_any(da)).is_err(),
                          guard(|| EntityDirect::<Ar>::from_any(da)).is_err(), guard(|| EntityDirect::<Aw>::from_any(da)).is_err()];
            let back = EntityDirect::<$A>::try_from(da).unwrap();
            let r: &EntityDirectAny = (&d).into();
            let mut dm = d;
            let rm: &mut EntityDirectAny = (&mut dm).into();
            let via_mut = *rm;
            #[allow(clippy::clone_on_copy)]
            let dcl = d.clone();
            let rt = back == d && back.into_any() == da && *r == da && hash_of(&d) == hash_of(&da) && d.into_any() == da
                && <$A as SelOk>::select_direct_ok(d)
                && da.into_any() == da && via_mut == da && dcl == d
                && EntityDirect::<$A>::from_any_unchecked(da) == d && EntityDirect::<$A>::from_any(da) == d
                && format!("{:?}", d) == format!("{:?}", dcl) && format!("{}", d) == format!("{}", dcl)
                && format!("{:?}", da) == format!("{:?}", via_mut) && format!("{}", da) == format!("{}", via_mut);
            let sel = match SelectEntityDirect::try_from(da) { Ok(s) => { let id = match s { SelectEntityDirect::Ap(_) => 0, SelectEntityDirect::Aq(_) => 1, SelectEntityDirect::Ar(_) => 2, SelectEntityDirect::Aw(_) => 3 }; id as i64 } Err(_) => -1 };
            let d2 = w.to_direct(e).unwrap();
            let eq = d2 == d && hash_of(&d2) == hash_of(&d);
            dres.push(J::O(vec![("a", ji($ai)), ("aid", ji(da.archetype_id())), ("typed_aid", ji(d.archetype_id())),
                ("try", J::A(tries.iter().map(|b| J::B(*b)).collect())), ("from_any_panics", J::A(panics.iter().map(|b| J::B(*b)).collect())),
                ("rt", J::B(rt)), ("sel", ji(sel)), ("eq", J::B(eq)),
                ("ent_aid", ji(e.archetype_id())), ("const_id", ji(<$A as Archetype>::ARCHETYPE_ID))]));
        }};
    }
    direct_for!(Ap, 0);
    direct_for!(Aq, 1);
    direct_for!(Ar, 2);
    direct_for!(Aw, 3);
    // direct handles whose archetype id is NOT declared in VW can only come from another world type
    let mut derr_ok = true;
    {
        let mut x = xw::XW::new();
        let e9 = x.create::<xw::X9>((xw::Xb(1),));
        let e254 = x.create::<xw::X254>((xw::Xb(2),));
        let foreign: [EntityDirectAny; 2] = [x.to_direct(e9).unwrap().into(), x.to_direct(e254).unwrap().into()];
        macro_rules! derr_is_type { ($r:expr) => { match $r { Err(e) => { if e != EcsError::InvalidEntityType { derr_ok = false; } } Ok(_) => { derr_ok = false; } } }; }
        for da in foreign {
            derr_is_type!(EntityDirect::<Ap>::try_from(da));
            derr_is_type!(EntityDirect::<Aq>::try_from(da));
            derr_is_type!(EntityDirect::<Ar>::try_from(da));
            derr_is_type!(EntityDirect::<Aw>::try_from(da));
            derr_is_type!(SelectEntityDirect::try_from(da).map(|_| ()));
        }
        // and the declared-but-other case for the direct Select / typed conversions
        let data = <Ap as AOps>::make(&[5]);
        let t = <Ap as AOps>::h_create(&mut w, data, 0);
        let e = Entity::<Ap>::try_from(EntityAny::from_raw(t).unwrap()).unwrap();
        let da: EntityDirectAny = w.to_direct(e).unwrap().into();
        derr_is_type!(EntityDirect::<Aq>::try_from(da));
        derr_is_type!(EntityDirect::<Ar>::try_from(da));
        if SelectEntityDirect::try_from(da).is_err() { derr_ok = false; }
    }
    // Eq / Hash of direct handles over a churn history: two direct handles are equal exactly when
    // their (key, version) pairs are, whatever bit patterns the two fields differ by (300 removals take
    // the archetype version across bit 8, so index and version differences with equal patterns occur)
    let mut direct_eq_ok = true;
    {
        let mut w2 = VW::new();
        let mut pool: Vec<EntityDirectAny> = Vec::new();
        let mut live: Vec<Entity<Ap>> = Vec::new();
        for round in 0..300u32 {
            let data = <Ap as AOps>::make(&[round as i64]);
            let t = <Ap as AOps>::h_create(&mut w2, data, 0);
            live.push(Entity::<Ap>::try_from(EntityAny::from_raw(t).unwrap()).unwrap());
            if round % 64 < 3 || round > 250 {
                for e in &live { pool.push(w2.to_direct(*e).unwrap().into()); }
            }
            if live.len() > 3 {
                let e = live.remove((round as usize) % 2);
                w2.destroy(e);
            }
        }
        for (i, a) in pool.iter().enumerate() {
            for b in &pool[i..] {
                let same_raw = dtok(*a) == dtok(*b);
                if (a == b) != same_raw || (same_raw && hash_of(a) != hash_of(b)) { direct_eq_ok = false; }
                if let (Ok(x), Ok(y)) = (EntityDirect::<Ap>::try_from(*a), EntityDirect::<Ap>::try_from(*b)) {
                    if (x == y) != same_raw { direct_eq_ok = false; }
                }
            }
        }
    }
    // the step enums: Default, From<()>, From<EcsStep>, is_destroy (what the loop macros' closures return)
    let step_ok = matches!(EcsStep::default(), EcsStep::Continue) && matches!(EcsStepDestroy::default(), EcsStepDestroy::Continue)
        && matches!(EcsStep::from(()), EcsStep::Continue) && matches!(EcsStepDestroy::from(()), EcsStepDestroy::Continue)
        && matches!(EcsStepDestroy::from(EcsStep::Continue), EcsStepDestroy::Continue)
        && matches!(EcsStepDestroy::from(EcsStep::Break), EcsStepDestroy::Break)
        && !EcsStepDestroy::Continue.is_destroy() && !EcsStepDestroy::Break.is_destroy()
        && EcsStepDestroy::ContinueDestroy.is_destroy() && EcsStepDestroy::BreakDestroy.is_destroy();
    // error values: Clone / PartialEq / Display / Debug / std::error::Error
    let errs = [EcsError::InvalidEntityType, EcsError::InvalidRawEntity];
    let err_ok = errs.iter().all(|e| { let c = e.clone(); let b: &dyn std::error::Error = e; c == *e && !format!("{}", e).is_empty() && !format!("{:?}", b).is_empty() })
        && errs[0] != errs[1] && format!("{}", errs[0]) != format!("{}", errs[1]);
    writeln!(out, "{}", J::O(vec![("direct", J::A(dres)), ("direct_errors_ok", J::B(derr_ok)), ("direct_eq_ok", J::B(direct_eq_ok)), ("step_ok", J::B(step_ok)), ("err_values_ok", J::B(err_ok))]).to_line()).unwrap();
    n
}
