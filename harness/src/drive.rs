//! Seeded random histories on the real crate.
use crate::h::*;
use crate::queries::{Mac, Step, NQ};
use crate::with_arch;
use crate::world::*;
use gecs::prelude::*;
use std::collections::HashMap;

pub struct Rng(pub u64);
impl Rng {
    pub fn next(&mut self) -> u64 {
        // xorshift64*
        let mut x = self.0;
        x ^= x >> 12;
        x ^= x << 25;
        x ^= x >> 27;
        self.0 = x;
        x.wrapping_mul(0x2545F4914F6CDD1D)
    }
    pub fn below(&mut self, n: u64) -> u64 {
        if n == 0 { 0 } else { (self.next() >> 11) % n }
    }
    pub fn chance(&mut self, pct: u64) -> bool {
        self.below(100) < pct
    }
}

pub struct Profile {
    pub steps: usize,
    pub faults: bool,
    pub multi_world: bool,
    pub max_live: usize,
    pub big: bool, // large populations: several growth steps, dozens to hundreds of entities
}

fn live_of(h: &H, wi: usize) -> Vec<Tok> {
    let w = h.worlds[wi].as_ref().unwrap();
    let mut v: Vec<Tok> = Vec::new();
    v.extend(w.ap.entities().iter().map(|e| tok(*e)));
    v.extend(w.aq.entities().iter().map(|e| tok(*e)));
    v.extend(w.ar.entities().iter().map(|e| tok(*e)));
    v.extend(w.aw.entities().iter().map(|e| tok(*e)));
    v
}

fn arch_len(h: &H, wi: usize, ai: usize) -> usize {
    let w = h.worlds[wi].as_ref().unwrap();
    match ai { 0 => w.ap.len(), 1 => w.aq.len(), 2 => w.ar.len(), _ => w.aw.len() }
}

fn pick_arch(r: &mut Rng) -> usize {
    match r.below(10) { 0..=3 => 0, 4..=6 => 1, 7..=8 => 2, _ => 3 }
}

fn pick_key(h: &H, r: &mut Rng, wi: usize) -> Key {
    let live = live_of(h, wi);
    let c = r.below(100);
    if c < 55 && !live.is_empty() {
        Key::Ent(live[r.below(live.len() as u64) as usize])
    } else if c < 75 && !h.pool[wi].is_empty() {
        Key::Ent(h.pool[wi][r.below(h.pool[wi].len() as u64) as usize]) // possibly stale
    } else if c < 95 && !h.dpool[wi].is_empty() {
        Key::Dir(h.dpool[wi][r.below(h.dpool[wi].len() as u64) as usize])
    } else {
        // forged: small position / generation, any id including undeclared at archetype level
        let id = ARCH_IDS[r.below(4) as usize] as u32;
        Key::Ent((((r.below(6) as u32) << 8) | id, 1 + r.below(3) as u32))
    }
}

fn key_spec(r: &mut Rng, key: Key) -> KeySpec {
    let typed = r.chance(50);
    let world_level = r.chance(50);
    let at = if !typed && !world_level && r.chance(15) { Some(r.below(NARCH as u64) as usize) } else { None };
    KeySpec { key, typed, world_level, at }
}

pub fn run_one(h: &mut H, r: &mut Rng, prof: &Profile) {
    h.conv_faults = prof.faults;
    h.op_reset();
    if guard(|| run_body(h, r, prof)).is_err() {
        h.crash("escaped_panic");
    }
}

fn run_body(h: &mut H, r: &mut Rng, prof: &Profile) {
    let caps = {
        let mut c = [0usize; NARCH];
        for x in c.iter_mut() {
            *x = match r.below(6) { 0 => 0, 1 => 1, 2 => 2, 3 => 3, 4 => 4, _ => r.below(9) as usize };
            if prof.big {
                *x = [0usize, 5, 14, 30, 31, 62, 64, 126][r.below(8) as usize];
            }
        }
        c
    };
    h.begin("init");
    h.op_init(0, caps);
    let mut payload = 100i64;
    let mut quiet = 0usize;
    for _ in 0..prof.steps {
        // quiet bursts: a few operations observed by len/capacity only, so that nothing the
        // observation itself calls (version(), lookups, queries) happens between them
        if quiet > 0 { quiet -= 1; if quiet == 0 { h.light = false; } }
        else if r.chance(6) { quiet = 3 + r.below(5) as usize; h.light = true; }
        let existing: Vec<usize> = (0..NW).filter(|i| h.worlds[*i].is_some()).collect();
        if existing.is_empty() {
            h.op_init(0, [1, 1, 1, 1]);
            continue;
        }
        let wi = existing[r.below(existing.len() as u64) as usize];
        let c = r.below(100);
        payload += 1;
        if prof.big && c < 30 {
            // burst: grow one archetype through one or more reallocation steps
            let ai = pick_arch(r);
            let room = prof.max_live.saturating_sub(arch_len(h, wi, ai));
            let n = (r.below(24) as usize + 1).min(room);
            for k in 0..n {
                let p: Vec<i64> = (0..32).map(|i| (payload + k as i64) * 100 + i).collect();
                h.begin("create");
                h.op_create(wi, ai, &p, r.below(7) as u8, r.chance(35));
            }
            payload += 30;
        } else if c < 30 {
            let mut ai = pick_arch(r);
            if arch_len(h, wi, ai) >= prof.max_live { ai = pick_arch(r); }
            if arch_len(h, wi, ai) >= prof.max_live + 4 { continue; }
            let n = 32;
            let p: Vec<i64> = (0..n).map(|i| payload * 100 + i).collect();
            h.begin("create");
            h.op_create(wi, ai, &p, r.below(7) as u8, r.chance(35));
        } else if c < 52 {
            let k = pick_key(h, r, wi);
            let ks = key_spec(r, k);
            let fault = if prof.faults && r.chance(6) { Some(r.below(3) as u32) } else { None };
            h.begin("destroy");
            h.op_destroy(wi, ks, fault);
        } else if c < 58 {
            let k = pick_key(h, r, wi);
            let ks = key_spec(r, k);
            h.begin("to_direct");
            h.op_to_direct(wi, ks);
        } else if c < 70 {
            let k = pick_key(h, r, wi);
            let mut ks = key_spec(r, k);
            ks.at = None;
            let own = arch_of_id(match k { Key::Ent(t) => (t.0 & 0xff) as u8, Key::Dir(d) => d.archetype_id() });
            if let Some(ai) = own {
                let ncols: usize = crate::with_arch!(ai, A => A::ncols());
                let col = r.below(ncols as u64) as usize;
                h.begin("write");
            h.op_write(wi, ks, r.below(8) as u8, col, payload);
            }
        } else if c < 82 {
            let mac = match r.below(3) { 0 => Mac::Iter, 1 => Mac::IterBorrow, _ => Mac::IterDestroy };
            let q = r.below(NQ as u64) as usize;
            let mut decide: HashMap<Tok, Step> = HashMap::new();
            for t in live_of(h, wi) {
                let d = match r.below(20) {
                    0..=11 => Step::Continue,
                    12..=17 => Step::ContinueDestroy,
                    18 => Step::Break,
                    _ => Step::BreakDestroy,
                };
                decide.insert(t, d);
            }
            let set = if r.chance(40) { Some(payload) } else { None };
            let fault = if prof.faults && r.chance(10) { Some(r.below(4) as u32) } else { None };
            h.begin("loop");
            h.op_loop(wi, q, mac, &decide, Step::Continue, set, fault);
        } else if c < 90 {
            let k = pick_key(h, r, wi);
            let q = r.below(NQ as u64) as usize;
            let set = if r.chance(40) { Some(payload) } else { None };
            let fault = if prof.faults && r.chance(8) { Some(0) } else { None };
            h.begin("find");
            h.op_find(wi, q, r.chance(50), k, set, fault);
        } else if c < 94 {
            if prof.multi_world {
                let other: Vec<usize> = existing.iter().copied().filter(|x| *x != wi).collect();
                if !other.is_empty() && r.chance(30) {
                    // one archetype of another world overwritten through Clone::clone_from
                    let dst = other[r.below(other.len() as u64) as usize];
                    let (cf, df) = if prof.faults && r.chance(35) {
                        if r.chance(50) { (Some(r.below(4) as u32), None) } else { (None, Some(r.below(4) as u32)) }
                    } else { (None, None) };
                    h.begin("arch_clone_from");
                    h.op_arch_clone_from(wi, dst, pick_arch(r), cf, df);
                } else if !other.is_empty() && r.chance(35) {
                    // overwrite an existing world through Clone::clone_from (may recycle allocations)
                    let dst = other[r.below(other.len() as u64) as usize];
                    h.begin("clone_from");
                    h.op_clone_from(wi, dst);
                } else if let Some(dst) = (0..NW).find(|i| h.worlds[*i].is_none()) {
                    let fault = if prof.faults && r.chance(25) { Some(r.below(6) as u32) } else { None };
                    h.begin("clone");
                    h.op_clone(wi, dst, fault);
                } else {
                    let victim = existing[r.below(existing.len() as u64) as usize];
                    let fault = if prof.faults && r.chance(25) { Some(r.below(6) as u32) } else { None };
                    h.begin("drop");
                    h.op_drop(victim, fault);
                }
            }
        } else if c < 96 {
            // drain one archetype completely (various key kinds), then create again: emptied-by-history
            // archetypes are where version / free-list / clone shortcuts hide
            let ai = pick_arch(r);
            let ents: Vec<Tok> = live_of(h, wi).into_iter().filter(|t| arch_of_id((t.0 & 0xff) as u8) == Some(ai)).collect();
            if ents.len() <= 4 {
                for t in ents {
                    let k = key_spec(r, Key::Ent(t));
                    h.begin("destroy");
                    h.op_destroy(wi, KeySpec { at: None, ..k }, None);
                }
                let p: Vec<i64> = (0..32).map(|i| payload * 100 + i).collect();
                h.begin("create");
                h.op_create(wi, ai, &p, r.below(7) as u8, r.chance(50));
            }
        } else if c < 98 {
            let scope = if r.chance(50) { None } else { Some(r.below(NARCH as u64) as usize) };
            h.begin("clear_events");
            h.op_clear_events(wi, scope);
        } else if prof.multi_world && existing.len() > 1 {
            h.begin("drop");
            h.op_drop(wi, None);
        }
    }
    // refill every archetype of every world to exactly its capacity: every position a destroy freed
    // must be reusable, without growing, and must hand out a handle never issued before
    h.light = true;
    for wi in 0..NW {
        if h.worlds[wi].is_none() { continue; }
        for ai in 0..NARCH {
            let room = {
                let w = h.worlds[wi].as_ref().unwrap();
                with_arch!(ai, A => { let a = A::arch(w); a.capacity() - a.len() })
            };
            for k in 0..room.min(160) {
                let p: Vec<i64> = (0..32).map(|i| (payload + k as i64) * 100 + i).collect();
                h.begin("create");
                h.op_create(wi, ai, &p, (k % 3) as u8, true);
            }
        }
    }
    for wi in 0..NW {
        if h.worlds[wi].is_none() { continue; }
        if r.chance(60) {
            // a LEAKED runtime-borrow guard (mem::forget) leaves a RefCell borrowed for good; the `&mut`
            // API does not go through the RefCells, so removals, growth and destroying loops must not
            // care. Light observation only from here on: the borrow-based read paths would refuse.
            h.light = true;
            let ai = pick_arch(r);
            let ncols = with_arch!(ai, A => A::ncols());
            h.begin("leak");
            h.op_leak(wi, ai, r.below(ncols as u64) as usize, r.chance(50));
            let ents: Vec<Tok> = live_of(h, wi).into_iter().filter(|t| arch_of_id((t.0 & 0xff) as u8) == Some(ai)).collect();
            for t in ents.into_iter().take(3) {
                let k = key_spec(r, Key::Ent(t));
                h.begin("destroy");
                h.op_destroy(wi, KeySpec { at: None, ..k }, None);
            }
            let room = {
                let w = h.worlds[wi].as_ref().unwrap();
                with_arch!(ai, A => { let a = A::arch(w); a.capacity() - a.len() })
            };
            for k in 0..(room.min(6) + 1) {
                let p: Vec<i64> = (0..32).map(|i| (payload + 7 + k as i64) * 100 + i).collect();
                h.begin("create");
                h.op_create(wi, ai, &p, (k % 4) as u8, false);
            }
            let mut decide = HashMap::new();
            for t in live_of(h, wi) {
                if r.chance(40) { decide.insert(t, Step::ContinueDestroy); }
            }
            h.begin("loop");
            h.op_loop(wi, 0, Mac::IterDestroy, &decide, Step::Continue, None, None);
        }
        h.light = false;
        h.begin("drop");
        h.op_drop(wi, None);
    }
}

// ---------------------------------------------------------------------------------------------
// Boundary histories: generation / archetype-version overflow reached through the preset hook.

fn ks(key: Key, typed: bool, world_level: bool) -> KeySpec {
    KeySpec { key, typed, world_level, at: None }
}

/// One overflow scenario on archetype `ai`; `variant` rotates key kinds and follow-up operations.
fn overflow_run(h: &mut H, ai: usize, slot_start: u32, arch_start: u32, variant: u64) {
    h.op_reset();
    h.begin("init");
    h.op_init(0, [3, 3, 3, 3]);
    h.begin("preset");
    h.op_preset(0, ai, slot_start, arch_start);
    let p: Vec<i64> = (0..32).map(|i| 500 + i).collect();
    let mut made: Vec<Tok> = Vec::new();
    for _ in 0..3 {
        h.begin("create");
        if let Some(t) = h.op_create(0, ai, &p, variant as u8, false) { made.push(t); }
    }
    // recycle one position until its generation (or the archetype version) passes the limit
    let mut cur = made[0];
    for round in 0..5u64 {
        h.begin("destroy");
        let typed = (round + variant) % 2 == 0;
        let wl = (round + variant / 2) % 2 == 0;
        h.op_destroy(0, ks(Key::Ent(cur), typed, wl), None);
        let still = h.worlds[0].as_ref().unwrap().contains(any_of(cur));
        if still {
            // the documented overflow panic left the entity alive: keep using the world
            h.begin("write");
            h.op_write(0, ks(Key::Ent(cur), true, false), (variant % 8) as u8, 0, 900 + round as i64);
            h.begin("to_direct");
            if let Some(d) = h.op_to_direct(0, ks(Key::Ent(cur), false, true)) {
                h.begin("destroy");
                h.op_destroy(0, ks(Key::Dir(d), round % 2 == 0, variant % 2 == 0), None);
            }
            let mut decide = HashMap::new();
            decide.insert(cur, Step::ContinueDestroy);
            h.begin("loop");
            h.op_loop(0, 0, Mac::IterDestroy, &decide, Step::Continue, None, None);
            if made.len() > 1 {
                let other = made[1];
                h.begin("destroy");
                h.op_destroy(0, ks(Key::Ent(other), false, true), None);
            }
            break;
        }
        h.begin("create");
        match h.op_create(0, ai, &p, (variant + round) as u8, round % 2 == 0) {
            Some(t) => { cur = t; made.push(t); }
            None => break,
        }
    }
    h.begin("clone");
    h.op_clone(0, 1, None);
    h.begin("create");
    h.op_create(1, ai, &p, 0, false);
    h.begin("drop");
    h.op_drop(0, None);
    h.begin("drop");
    h.op_drop(1, None);
}

/// A long history on few positions with light observation (len/capacity only), fully observed
/// every `every` steps and at the end: long event logs, generations in the thousands, and clears
/// of long logs.
fn long_run(h: &mut H, ai: usize, cycles: usize, every: usize) {
    h.op_reset();
    h.begin("init");
    h.op_init(0, [2, 2, 2, 2]);
    let p: Vec<i64> = (0..32).map(|i| 700 + i).collect();
    h.begin("create");
    let keep = h.op_create(0, ai, &p, 0, false);
    for i in 0..cycles {
        h.light = (i + 1) % every != 0;
        h.begin("create");
        let t = h.op_create(0, ai, &p, (i % 4) as u8, i % 3 == 0);
        if let Some(t) = t {
            h.begin("destroy");
            h.op_destroy(0, ks(Key::Ent(t), i % 2 == 0, i % 5 != 0), None);
        }
        // keep the issued-handle pool (probed at full observations) small
        let n = h.pool[0].len();
        if n > 40 { h.pool[0].drain(1..n - 20); }
    }
    h.light = false;
    h.begin("clear_events");
    h.op_clear_events(0, Some(ai));
    h.begin("create");
    let t = h.op_create(0, ai, &p, 1, true);
    if let Some(t) = t {
        h.begin("destroy");
        h.op_destroy(0, ks(Key::Ent(t), true, true), None);
    }
    h.begin("clear_events");
    h.op_clear_events(0, None);
    if let Some(k) = keep {
        h.begin("destroy");
        h.op_destroy(0, ks(Key::Ent(k), false, true), None);
    }
    h.begin("clone");
    h.op_clone(0, 1, None);
    h.begin("drop");
    h.op_drop(0, None);
    h.begin("drop");
    h.op_drop(1, None);
}

pub fn boundary(h: &mut H) {
    let max = u32::MAX;
    let mut variant = 0u64;
    for (ai, cycles) in [(0usize, 1300usize), (2, 300)] {
        if guard(|| long_run(h, ai, cycles, 260)).is_err() { h.light = false; h.crash("escaped_panic"); }
    }
    for ai in 0..NARCH {
        // generation / version limits, and the inner power-of-two boundaries (16, 24, 31 bits)
        for (slot, arch) in [(max - 2, 7u32), (max - 1, 7), (max, 7), (1, max - 2), (5, max - 1), (5, max), (max - 1, max - 1), (max, max),
                             ((1 << 16) - 2, (1 << 16) - 3), ((1 << 24) - 2, (1 << 24) - 3), ((1u32 << 31) - 2, (1u32 << 31) - 3)] {
            variant += 1;
            let r = guard(|| overflow_run(h, ai, slot, arch, variant));
            if r.is_err() { h.crash("escaped_panic"); }
        }
    }
    h.op_reset();
}
