//! Script interpreter: runs operation scripts (produced from TLC behaviours by lib/tour.py)
//! on the real crate. Handles are symbolic: H<n> = handle returned by the n-th create of the
//! current script, D<n> = n-th direct handle minted by a to_direct of the script,
//! R:<id>:<pos>:<gen> = raw forged entity handle, F:<a>:<idx>:<ver> = direct handle forged
//! through a scratch world of the same type.
#![allow(clippy::all)]
use crate::h::*;
use crate::queries::{Mac, Step};
use crate::with_arch;
use crate::world::*;
use gecs::prelude::*;
use std::collections::HashMap;
use std::io::BufRead;

struct Env {
    hs: Vec<Option<Tok>>,
    ds: Vec<Option<EntityDirectAny>>,
}

fn forge_direct(a: usize, idx: usize, ver: u32) -> EntityDirectAny {
    crate::reg::scoped(|| forge_direct_inner(a, idx, ver))
}

fn forge_direct_inner(a: usize, idx: usize, ver: u32) -> EntityDirectAny {
    with_arch!(a, A => {
        // an empty archetype with the wanted version, then idx + 1 entities
        let mut tmp = VW::with_capacity(VWCapacity { ap: idx + 1, aq: idx + 1, ar: idx + 1, aw: idx + 1 });
        <A as AOps>::preset(&mut tmp, 1, ver);
        let mut last = None;
        for _ in 0..=idx {
            let data = <A as AOps>::make(&[0; 32]);
            last = Some(<A as AOps>::h_create(&mut tmp, data, 0));
        }
        let t = last.unwrap();
        let d = tmp.to_direct(any_of(t)).expect("harness: forge_direct");
        drop(tmp);
        d
    })
}

fn key_of(env: &Env, s: &str) -> Option<Key> {
    if let Some(n) = s.strip_prefix('H') {
        return env.hs.get(n.parse::<usize>().ok()?).copied().flatten().map(Key::Ent);
    }
    if let Some(n) = s.strip_prefix('D') {
        return env.ds.get(n.parse::<usize>().ok()?).copied().flatten().map(Key::Dir);
    }
    if let Some(r) = s.strip_prefix("R:") {
        let v: Vec<u32> = r.split(':').map(|x| x.parse().unwrap()).collect();
        return Some(Key::Ent(((v[1] << 8) | v[0], v[2])));
    }
    if let Some(r) = s.strip_prefix("F:") {
        let v: Vec<u32> = r.split(':').map(|x| x.parse().unwrap()).collect();
        return Some(Key::Dir(forge_direct(v[0] as usize, v[1] as usize, v[2])));
    }
    None
}

fn spec_of(key: Key, kd: &str, lv: &str, at: Option<usize>) -> KeySpec {
    KeySpec { key, typed: kd == "e" || kd == "d", world_level: lv == "w", at }
}

pub fn run(h: &mut H, input: &str) {
    let f = std::io::BufReader::new(std::fs::File::open(input).expect("open script"));
    let mut env = Env { hs: Vec::new(), ds: Vec::new() };
    let mut crashed = false;
    for (ln, line) in f.lines().enumerate() {
        let line = line.unwrap();
        let t: Vec<&str> = line.split_whitespace().collect();
        if t.is_empty() || t[0].starts_with('#') { continue; }
        if crashed && t[0] != "reset" { continue; }
        h.begin(&format!("script line {}: {}", ln + 1, line));
        h.tag = (ln + 1) as i64;
        let r = guard(|| match t[0] {
            "reset" => {
                for wi in 0..NW { if h.worlds[wi].is_some() { h.op_drop(wi, None); } }
                h.op_reset();
                env.hs.clear();
                env.ds.clear();
            }
            "init" => {
                let wi: usize = t[1].parse().unwrap();
                let caps = [t[2].parse().unwrap(), t[3].parse().unwrap(), t[4].parse().unwrap(), t[5].parse().unwrap()];
                h.op_init(wi, caps);
            }
            "create" => {
                let (wi, ai, via, within): (usize, usize, u8, u8) = (t[1].parse().unwrap(), t[2].parse().unwrap(), t[3].parse().unwrap(), t[4].parse().unwrap());
                let p: Vec<i64> = (0..32).map(|i| (ln as i64 + 1) * 100 + i).collect();
                let made = h.op_create(wi, ai, &p, via, within != 0);
                env.hs.push(made);
            }
            "destroy" | "to_direct" | "write" => {
                let wi: usize = t[1].parse().unwrap();
                let at = t.iter().find_map(|x| x.strip_prefix('@')).map(|x| x.parse::<usize>().unwrap());
                match key_of(&env, t[2]) {
                    None => h.emit(vec![("op", crate::json::J::s("noop")), ("why", crate::json::J::s("unbound key"))]),
                    Some(key) => {
                        let ks = spec_of(key, t[3], t[4], at);
                        match t[0] {
                            "destroy" => h.op_destroy(wi, ks, None),
                            "to_direct" => { let d = h.op_to_direct(wi, ks); env.ds.push(d); }
                            _ => h.op_write(wi, ks, t[5].parse().unwrap(), t[6].parse().unwrap(), t[7].parse().unwrap()),
                        }
                    }
                }
            }
            "loop" => {
                // loop W q mac default [H<n>=dec ...]
                let wi: usize = t[1].parse().unwrap();
                let q: usize = t[2].parse().unwrap();
                let mac = match t[3] { "iter" => Mac::Iter, "iter_borrow" => Mac::IterBorrow, _ => Mac::IterDestroy };
                let dec = |s: &str| match s { "c" => Step::Continue, "b" => Step::Break, "cd" => Step::ContinueDestroy, _ => Step::BreakDestroy };
                let default = dec(t[4]);
                let mut decide: HashMap<Tok, Step> = HashMap::new();
                for kv in &t[5..] {
                    if let Some((k, v)) = kv.split_once('=') {
                        if let Some(Key::Ent(tok)) = key_of(&env, k) { decide.insert(tok, dec(v)); }
                    }
                }
                h.op_loop(wi, q, mac, &decide, default, None, None);
            }
            "clone" => h.op_clone(t[1].parse().unwrap(), t[2].parse().unwrap(), None),
            "clone_from" => h.op_clone_from(t[1].parse().unwrap(), t[2].parse().unwrap()),
            "drop" => h.op_drop(t[1].parse().unwrap(), None),
            "clear_events" => h.op_clear_events(t[1].parse().unwrap(), t.get(2).and_then(|x| x.parse::<usize>().ok())),
            other => panic!("harness: unknown script op {}", other),
        });
        if r.is_err() {
            h.crash("escaped_panic");
            crashed = true;
        }
    }
    h.tag = -1;
    if !crashed {
        for wi in 0..NW { if h.worlds[wi].is_some() { h.op_drop(wi, None); } }
    }
    h.op_reset();
}
