//! Fixed menu of cross-archetype query parameter lists, run through all five query macros.
#![allow(clippy::all)]
use crate::comps::*;
use crate::reg;
use crate::world::*;
use gecs::prelude::*;

pub struct Visit {
    pub a: usize,
    pub tok: Tok,
    pub direct: Option<EntityDirectAny>,
    pub bound: Vec<(&'static str, Val)>,
}

#[derive(Clone, Copy, PartialEq, Debug)]
pub enum Step {
    Continue,
    Break,
    ContinueDestroy,
    BreakDestroy,
}

pub struct Dec {
    pub step: Step,
    pub set: Option<i64>, // new payload for every mutable component parameter
}

impl Dec {
    fn step(&self) -> EcsStep {
        match self.step {
            Step::Continue | Step::ContinueDestroy => EcsStep::Continue,
            _ => EcsStep::Break,
        }
    }
    fn step_destroy(&self) -> EcsStepDestroy {
        match self.step {
            Step::Continue => EcsStepDestroy::Continue,
            Step::Break => EcsStepDestroy::Break,
            Step::ContinueDestroy => EcsStepDestroy::ContinueDestroy,
            Step::BreakDestroy => EcsStepDestroy::BreakDestroy,
        }
    }
}

fn bound_of<C: Comp>(c: &C) -> (&'static str, Val) {
    (C::NAME, rd(c))
}

pub type Cb<'a> = &'a mut dyn FnMut(Visit, Option<&VW>) -> Dec;

pub const NQ: usize = 7;

/// Parameter descriptions for `world_decl` (what `Match.tla` computes the matched set from).
pub fn describe(q: usize) -> Vec<Vec<&'static str>> {
    // each param: [kind, args...]; kinds: any, wild, ent A, dany, dwild, dir A, comp C, compmut C, oneof C.., oneofmut C..
    match q {
        0 => vec![vec!["any"], vec!["dany"]],
        1 => vec![vec!["wild"], vec!["dwild"], vec!["compmut", "Ta"]],
        2 => vec![vec!["any"], vec!["compmut", "Tb"]],
        3 => vec![vec!["any"], vec!["oneof", "Tz", "Th"]],
        4 => vec![vec!["ent", "Ar"], vec!["dir", "Ar"], vec!["compmut", "Tw"]],
        5 => vec![vec!["any"], vec!["dany"], vec!["oneofmut", "Ta", "Tw", "Qc"]],
        6 => vec![vec!["any"], vec!["comp", "Qa"], vec!["compmut", "Qp"]],
        _ => panic!("harness: bad query index"),
    }
}

/// Captured variables carrying the names of the locals the query macros generate: inside the closure
/// they must still be the caller's (macro hygiene), whatever the generated code declares around it.
macro_rules! sentinels {
    () => { ("SENT", "SENT", "SENT", "SENT", "SENT", "SENT", "SENT", "SENT") };
}
fn hyg_check(vals: [String; 8]) {
    if vals.iter().any(|v| v != "\"SENT\"") {
        reg::with(|r| r.anomalies.push(format!("hygiene_leak:{:?}", vals)));
    }
}

macro_rules! qbody {
    ($cb:ident, $wref:expr, $e:ident, [$($d:ident)?], [$($r:ident),*], [$($x:ident),*]) => {{
        if reg::closure_tick() {
            panic!("injected closure fault");
        }
        #[allow(unused_mut)]
        let mut direct: Option<EntityDirectAny> = None;
        $( direct = Some((*$d).into()); )?
        let v = Visit {
            a: <MatchedArchetype as AOps>::IDX,
            tok: tok(*$e),
            direct,
            bound: vec![$(bound_of($r),)* $(bound_of(&*$x),)*],
        };
        let dec: Dec = $cb(v, $wref);
        if let Some(p) = dec.set {
            let _ = p;
            $( $x.set(p); )*
        }
        dec
    }};
}

macro_rules! qloops {
    ($iter:ident, $iterb:ident, $iterd:ident, $find_a:ident, $find_d:ident, $findb_a:ident, $findb_d:ident,
     [$($params:tt)*], $e:ident, $d:tt, $r:tt, $x:tt) => {
        pub fn $iter(w: &mut VW, cb: Cb) {
            let (entity, len, idx, version, slices, archetype, closure, found) = sentinels!();
            ecs_iter!(w, |$($params)*| { hyg_check([format!("{:?}", entity), format!("{:?}", len), format!("{:?}", idx), format!("{:?}", version), format!("{:?}", slices), format!("{:?}", archetype), format!("{:?}", closure), format!("{:?}", found)]); qbody!(cb, None, $e, $d, $r, $x).step() });
        }
        pub fn $iterb(w: &VW, cb: Cb) {
            let (entity, len, idx, version, slices, archetype, closure, found) = sentinels!();
            ecs_iter_borrow!(w, |$($params)*| { hyg_check([format!("{:?}", entity), format!("{:?}", len), format!("{:?}", idx), format!("{:?}", version), format!("{:?}", slices), format!("{:?}", archetype), format!("{:?}", closure), format!("{:?}", found)]); qbody!(cb, Some(w), $e, $d, $r, $x).step() });
        }
        pub fn $iterd(w: &mut VW, cb: Cb) {
            let (entity, len, idx, version, slices, archetype, closure, found) = sentinels!();
            ecs_iter_destroy!(w, |$($params)*| { hyg_check([format!("{:?}", entity), format!("{:?}", len), format!("{:?}", idx), format!("{:?}", version), format!("{:?}", slices), format!("{:?}", archetype), format!("{:?}", closure), format!("{:?}", found)]); qbody!(cb, None, $e, $d, $r, $x).step_destroy() });
        }
        pub fn $find_a(w: &mut VW, k: EntityAny, cb: Cb) -> Option<i64> {
            let (entity, len, idx, version, slices, archetype, closure, found) = sentinels!();
            ecs_find!(w, k, |$($params)*| -> i64 { hyg_check([format!("{:?}", entity), format!("{:?}", len), format!("{:?}", idx), format!("{:?}", version), format!("{:?}", slices), format!("{:?}", archetype), format!("{:?}", closure), format!("{:?}", found)]); qbody!(cb, None, $e, $d, $r, $x); 7 })
        }
        pub fn $find_d(w: &mut VW, k: EntityDirectAny, cb: Cb) -> Option<i64> {
            let (entity, len, idx, version, slices, archetype, closure, found) = sentinels!();
            ecs_find!(w, k, |$($params)*| -> i64 { hyg_check([format!("{:?}", entity), format!("{:?}", len), format!("{:?}", idx), format!("{:?}", version), format!("{:?}", slices), format!("{:?}", archetype), format!("{:?}", closure), format!("{:?}", found)]); qbody!(cb, None, $e, $d, $r, $x); 7 })
        }
        pub fn $findb_a(w: &VW, k: EntityAny, cb: Cb) -> Option<i64> {
            let (entity, len, idx, version, slices, archetype, closure, found) = sentinels!();
            ecs_find_borrow!(w, k, |$($params)*| -> i64 { hyg_check([format!("{:?}", entity), format!("{:?}", len), format!("{:?}", idx), format!("{:?}", version), format!("{:?}", slices), format!("{:?}", archetype), format!("{:?}", closure), format!("{:?}", found)]); qbody!(cb, Some(w), $e, $d, $r, $x); 7 })
        }
        pub fn $findb_d(w: &VW, k: EntityDirectAny, cb: Cb) -> Option<i64> {
            let (entity, len, idx, version, slices, archetype, closure, found) = sentinels!();
            ecs_find_borrow!(w, k, |$($params)*| -> i64 { hyg_check([format!("{:?}", entity), format!("{:?}", len), format!("{:?}", idx), format!("{:?}", version), format!("{:?}", slices), format!("{:?}", archetype), format!("{:?}", closure), format!("{:?}", found)]); qbody!(cb, Some(w), $e, $d, $r, $x); 7 })
        }
    };
}

qloops!(q0_iter, q0_iterb, q0_iterd, q0_find_a, q0_find_d, q0_findb_a, q0_findb_d,
    [e: &EntityAny, d: &EntityDirectAny], e, [d], [], []);
qloops!(q1_iter, q1_iterb, q1_iterd, q1_find_a, q1_find_d, q1_findb_a, q1_findb_d,
    [e: &Entity<_>, d: &EntityDirect<_>, ta: &mut Ta], e, [d], [], [ta]);
qloops!(q2_iter, q2_iterb, q2_iterd, q2_find_a, q2_find_d, q2_findb_a, q2_findb_d,
    [e: &EntityAny, tb: &mut Tb], e, [], [], [tb]);
qloops!(q3_iter, q3_iterb, q3_iterd, q3_find_a, q3_find_d, q3_findb_a, q3_findb_d,
    [e: &EntityAny, x: &OneOf<Tz, Th>], e, [], [x], []);
qloops!(q4_iter, q4_iterb, q4_iterd, q4_find_a, q4_find_d, q4_findb_a, q4_findb_d,
    [e: &Entity<Ar>, d: &EntityDirect<Ar>, tw: &mut Tw], e, [d], [], [tw]);
qloops!(q5_iter, q5_iterb, q5_iterd, q5_find_a, q5_find_d, q5_findb_a, q5_findb_d,
    [e: &EntityAny, d: &EntityDirectAny, x: &mut OneOf<Ta, Tw, Qc>], e, [d], [], [x]);
qloops!(q6_iter, q6_iterb, q6_iterd, q6_find_a, q6_find_d, q6_findb_a, q6_findb_d,
    [e: &EntityAny, qa: &Qa, qp: &mut Qp], e, [], [qa], [qp]);

// ---------------------------------------------------------------------------------------------
// The same queries with other SHAPES of the closure body: a bare method call, a bare function call,
// a `match` expression -- no enclosing block. What the body evaluates to is the step.
pub struct Caller<'a, 'b> {
    pub cb: &'a mut (dyn FnMut(Visit, Option<&VW>) -> Dec + 'b),
    pub w: Option<&'a VW>,
}
impl<'a, 'b> Caller<'a, 'b> {
    pub fn go(&mut self, a: usize, t: Tok, direct: Option<EntityDirectAny>, bound: Vec<(&'static str, Val)>) -> Dec {
        if reg::closure_tick() {
            panic!("injected closure fault");
        }
        (self.cb)(Visit { a, tok: t, direct, bound }, self.w)
    }
    pub fn step(&mut self, a: usize, t: Tok, direct: Option<EntityDirectAny>, bound: Vec<(&'static str, Val)>) -> EcsStep {
        self.go(a, t, direct, bound).step()
    }
    pub fn step_destroy(&mut self, a: usize, t: Tok, direct: Option<EntityDirectAny>, bound: Vec<(&'static str, Val)>) -> EcsStepDestroy {
        self.go(a, t, direct, bound).step_destroy()
    }
}
fn call_step(c: &mut Caller, a: usize, t: Tok, direct: Option<EntityDirectAny>, bound: Vec<(&'static str, Val)>) -> EcsStep {
    c.step(a, t, direct, bound)
}
fn call_step_destroy(c: &mut Caller, a: usize, t: Tok, direct: Option<EntityDirectAny>, bound: Vec<(&'static str, Val)>) -> EcsStepDestroy {
    c.step_destroy(a, t, direct, bound)
}

macro_rules! qshapes {
    ($iter:ident, $iterb:ident, $iterd:ident, [$($params:tt)*], $e:ident, $direct:expr, $bound:expr) => {
        pub fn $iter(w: &mut VW, cb: Cb, shape: u32) {
            let mut caller = Caller { cb, w: None };
            match shape {
                1 => ecs_iter!(w, |$($params)*| caller.step(<MatchedArchetype as AOps>::IDX, tok(*$e), $direct, $bound)),
                2 => ecs_iter!(w, |$($params)*| call_step(&mut caller, <MatchedArchetype as AOps>::IDX, tok(*$e), $direct, $bound)),
                _ => ecs_iter!(w, |$($params)*| match caller.go(<MatchedArchetype as AOps>::IDX, tok(*$e), $direct, $bound).step { Step::Break | Step::BreakDestroy => EcsStep::Break, _ => EcsStep::Continue }),
            }
        }
        pub fn $iterb(w: &VW, cb: Cb, shape: u32) {
            let mut caller = Caller { cb, w: Some(w) };
            match shape {
                1 => ecs_iter_borrow!(w, |$($params)*| caller.step(<MatchedArchetype as AOps>::IDX, tok(*$e), $direct, $bound)),
                2 => ecs_iter_borrow!(w, |$($params)*| call_step(&mut caller, <MatchedArchetype as AOps>::IDX, tok(*$e), $direct, $bound)),
                _ => ecs_iter_borrow!(w, |$($params)*| match caller.go(<MatchedArchetype as AOps>::IDX, tok(*$e), $direct, $bound).step { Step::Break | Step::BreakDestroy => EcsStep::Break, _ => EcsStep::Continue }),
            }
        }
        pub fn $iterd(w: &mut VW, cb: Cb, shape: u32) {
            let mut caller = Caller { cb, w: None };
            match shape {
                1 => ecs_iter_destroy!(w, |$($params)*| caller.step_destroy(<MatchedArchetype as AOps>::IDX, tok(*$e), $direct, $bound)),
                2 => ecs_iter_destroy!(w, |$($params)*| call_step_destroy(&mut caller, <MatchedArchetype as AOps>::IDX, tok(*$e), $direct, $bound)),
                // a closure typed EcsStep inside the destroying macro (converted by From<EcsStep>): it can only
                // say Continue / Break; the decision function is told so through `plain_step`
                _ => {
                    reg::with(|r| r.plain_step = true);
                    ecs_iter_destroy!(w, |$($params)*| caller.step(<MatchedArchetype as AOps>::IDX, tok(*$e), $direct, $bound))
                }
            }
        }
    };
}
qshapes!(q0s_iter, q0s_iterb, q0s_iterd, [e: &EntityAny, d: &EntityDirectAny], e, Some((*d).into()), vec![]);
qshapes!(q3s_iter, q3s_iterb, q3s_iterd, [e: &EntityAny, x: &OneOf<Tz, Th>], e, None, vec![bound_of(x)]);

#[derive(Clone, Copy, PartialEq, Debug)]
pub enum Mac {
    Iter,
    IterBorrow,
    IterDestroy,
}

pub fn run_loop(q: usize, mac: Mac, w: &mut VW, cb: Cb) {
    // the read-only menus rotate through four shapes of the closure body (0 = the block form below)
    if q == 0 || q == 3 {
        let shape = reg::with(|r| { r.shape = r.shape.wrapping_add(1); r.shape % 4 });
        if shape != 0 {
            match (q, mac) {
                (0, Mac::Iter) => return q0s_iter(w, cb, shape),
                (0, Mac::IterBorrow) => return q0s_iterb(w, cb, shape),
                (0, Mac::IterDestroy) => return q0s_iterd(w, cb, shape),
                (_, Mac::Iter) => return q3s_iter(w, cb, shape),
                (_, Mac::IterBorrow) => return q3s_iterb(w, cb, shape),
                (_, Mac::IterDestroy) => return q3s_iterd(w, cb, shape),
            }
        }
    }
    macro_rules! go {
        ($i:ident, $b:ident, $d:ident) => {
            match mac {
                Mac::Iter => $i(w, cb),
                Mac::IterBorrow => $b(w, cb),
                Mac::IterDestroy => $d(w, cb),
            }
        };
    }
    match q {
        0 => go!(q0_iter, q0_iterb, q0_iterd),
        1 => go!(q1_iter, q1_iterb, q1_iterd),
        2 => go!(q2_iter, q2_iterb, q2_iterd),
        3 => go!(q3_iter, q3_iterb, q3_iterd),
        4 => go!(q4_iter, q4_iterb, q4_iterd),
        5 => go!(q5_iter, q5_iterb, q5_iterd),
        6 => go!(q6_iter, q6_iterb, q6_iterd),
        _ => panic!("harness: bad query index"),
    }
}

/// key: Ok(entity key) or Err(direct key); borrow: ecs_find_borrow! instead of ecs_find!
pub fn run_find(q: usize, borrow: bool, w: &mut VW, key: Result<EntityAny, EntityDirectAny>, cb: Cb) -> Option<i64> {
    macro_rules! go {
        ($fa:ident, $fd:ident, $ba:ident, $bd:ident) => {
            match (borrow, key) {
                (false, Ok(k)) => $fa(w, k, cb),
                (false, Err(k)) => $fd(w, k, cb),
                (true, Ok(k)) => $ba(w, k, cb),
                (true, Err(k)) => $bd(w, k, cb),
            }
        };
    }
    match q {
        0 => go!(q0_find_a, q0_find_d, q0_findb_a, q0_findb_d),
        1 => go!(q1_find_a, q1_find_d, q1_findb_a, q1_findb_d),
        2 => go!(q2_find_a, q2_find_d, q2_findb_a, q2_findb_d),
        3 => go!(q3_find_a, q3_find_d, q3_findb_a, q3_findb_d),
        4 => go!(q4_find_a, q4_find_d, q4_findb_a, q4_findb_d),
        5 => go!(q5_find_a, q5_find_d, q5_findb_a, q5_findb_d),
        6 => go!(q6_find_a, q6_find_d, q6_findb_a, q6_findb_d),
        _ => panic!("harness: bad query index"),
    }
}
